#!/usr/bin/env python3
"""Regenerates /verif/MANIFEST.json from kani/registry.py (claimed checks) and kani/not_applicable.py."""
import json, os, sys
ROOT = os.path.dirname(os.path.dirname(os.path.abspath(__file__)))
sys.path.insert(0, os.path.join(ROOT, "kani"))
import registry
import not_applicable

checks = []
for pid in sorted(registry.CLAIMED):
    cfg = registry.PROPS[pid]
    has_thorough = any(g.get("tier") == "thorough" or g.get("thorough_harnesses") for g in cfg["groups"])
    c = {
        "property_id": pid,
        "quick_cmd": f"bin/check {pid} --tier quick",
        "thorough_cmd": f"bin/check {pid} --tier thorough",
        "evidence_file": f"/verif/evidence/{pid}.json",
        "replay_cmd_template": f"bin/check {pid} --replay {{path}}",
        "engine": "kani-cbmc",
        "level_claimed": {
            "category": "model_checking",
            "text": cfg.get("level_text") or (
                "Bounded symbolic execution of the repository's real Rust functions (" + ", ".join(cfg.get("functions", [])[:6]) +
                "): inputs/kernel responses/clock are symbolic, the property is an assertion, CBMC+SAT decides it for every "
                "value inside the stated bounds with unwinding assertions on. Bounds: " + cfg.get("bounds", "") +
                " Outside the claim: " + cfg.get("outside", "")),
            "design_ref": cfg.get("design_ref", f"DESIGN.md §3 {pid}"),
        },
        "level_note": "; ".join(cfg.get("assumptions", []) + [
            "third-party crates are replaced by the model crates in kani/models (documented sequential contracts, size bounds asserted)",
            "environment substitutions E1-E7 of DESIGN §2.3 applied to the scratch copy",
            "trusted base: Kani 0.68, CBMC 6.11, CaDiCaL"]),
        "technique": cfg.get("technique", "solver-based bounded model checking of the real source (Kani/CBMC + SAT), counterexamples replayed natively"),
    }
    if not has_thorough:
        pass
    checks.append(c)

manifest = {
    "version": 1,
    "setup_cmd": "bin/setup",
    "hooks": {
        "guard": "acl_dev_open_coroutine_verif",
        "enable": "no hooks are compiled into /repo: harnesses are mounted into a scratch copy as #[cfg(kani)] child modules",
        "baseline_off_cmd": "cd /repo && cargo nextest run --workspace --no-fail-fast --tool-config-file pb:/w/lib/nextest.toml --profile pb --test-threads 8 --offline || cargo test --workspace --no-fail-fast --offline",
        "source_commits": [],
        "add_only": True,
    },
    "engines": [{
        "name": "kani-cbmc",
        "path": "/verif/kani",
        "serves_properties": sorted(registry.CLAIMED),
        "kind_free_text": "cargo-kani 0.68 (CBMC 6.11 + CaDiCaL) over a scratch copy of /repo/core regenerated on every run; "
                          "model crates for third-party dependencies; native replay crate /verif/replay against the real build",
    }],
    "checks": checks,
    "not_applicable": [{"property_id": k, "reason": v} for k, v in sorted(not_applicable.NA.items()) if k not in registry.CLAIMED],
    "notes": "See DESIGN.md. known_findings.txt lists recorded findings and fixed defects.",
}
json.dump(manifest, open(os.path.join(ROOT, "MANIFEST.json"), "w"), indent=1)
print("MANIFEST.json:", len(checks), "checks,", len(manifest["not_applicable"]), "not applicable")
