//! Native replays of solver counterexamples against the REAL /repo build (real dependencies).
//! Usage: ocv-replay <case> <args...>; prints one JSON object on stdout.
use open_coroutine_core::syscall;
use std::ffi::c_int;
use std::time::Instant;

fn errno() -> c_int {
    std::io::Error::last_os_error().raw_os_error().unwrap_or(0)
}

fn init_event_loops() {
    let mut cfg = open_coroutine_core::config::Config::single();
    cfg.set_hook(false);
    open_coroutine_core::net::EventLoops::init(&cfg);
}

extern "C" fn mock_select(
    _n: c_int,
    _r: *mut libc::fd_set,
    _w: *mut libc::fd_set,
    _e: *mut libc::fd_set,
    _t: *mut libc::timeval,
) -> c_int {
    0
}

fn main() {
    let args: Vec<String> = std::env::args().collect();
    let case = args.get(1).map(String::as_str).unwrap_or("");
    let num = |i: usize| -> i64 { args[i].parse().expect("number") };
    match case {
        // select <tv_sec> <tv_usec>: nothing ready; prints elapsed time, result, errno
        "select" => {
            init_event_loops();
            let mut tv = libc::timeval { tv_sec: num(2), tv_usec: num(3) };
            let f: extern "C" fn(c_int, *mut libc::fd_set, *mut libc::fd_set, *mut libc::fd_set, *mut libc::timeval) -> c_int = mock_select;
            let t0 = Instant::now();
            let r = syscall::select(Some(&f), 0, std::ptr::null_mut(), std::ptr::null_mut(), std::ptr::null_mut(), &raw mut tv);
            let e = errno();
            println!("{{\"ret\": {r}, \"errno\": {e}, \"elapsed_us\": {}}}", t0.elapsed().as_micros());
        }
        _ => {
            eprintln!("unknown case {case}");
            std::process::exit(64);
        }
    }
}
