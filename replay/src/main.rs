//! Native replays of solver counterexamples against the REAL /repo build (real dependencies).
//! Usage: ocv-replay <case> <args...>; prints one JSON object on stdout.
use open_coroutine_core::syscall;
use std::ffi::{c_int, c_void};
use std::time::Instant;

fn errno() -> c_int {
    std::io::Error::last_os_error().raw_os_error().unwrap_or(0)
}

fn init_event_loops() {
    let mut cfg = open_coroutine_core::config::Config::single();
    cfg.set_hook(false);
    open_coroutine_core::net::EventLoops::init(&cfg);
}

extern "C" fn mock_select(
    _n: c_int,
    _r: *mut libc::fd_set,
    _w: *mut libc::fd_set,
    _e: *mut libc::fd_set,
    _t: *mut libc::timeval,
) -> c_int {
    0
}

extern "C" fn mock_poll(_f: *mut libc::pollfd, _n: libc::nfds_t, _t: c_int) -> c_int {
    0
}

// ---------------------------------------------------------------- scripted kernel for socket I/O
#[derive(Copy, Clone, Debug)]
enum Resp {
    Data(usize),
    Eagain,
    Eintr,
    Reset,
    Eof,
}
static mut SCRIPT: Vec<Resp> = Vec::new();
static mut CALLS: usize = 0;
static mut MOVED: usize = 0;
static mut STREAM: [u8; 64] = [0; 64];
static mut SINK: [u8; 64] = [0; 64];
static mut LAST_ERRNO: c_int = 0;
static mut RANGES: Vec<(usize, usize)> = Vec::new();

#[allow(static_mut_refs)]
unsafe fn next() -> Resp {
    let i = CALLS;
    CALLS += 1;
    SCRIPT.get(i).copied().unwrap_or(Resp::Reset)
}
unsafe fn fail(e: c_int) -> libc::ssize_t {
    if e == libc::EAGAIN {
        // optional: the kernel takes a while to say "would block" (lets a real SO_*TIMEO limit expire during a replay)
        if let Some(ms) = std::env::var("OCV_EAGAIN_SLEEP_MS").ok().and_then(|v| v.parse::<u64>().ok()) {
            std::thread::sleep(std::time::Duration::from_millis(ms));
        }
    }
    LAST_ERRNO = e;
    syscall::set_errno(e);
    -1
}
#[allow(static_mut_refs)]
unsafe fn kernel_read(buf: *mut u8, len: usize) -> libc::ssize_t {
    RANGES.push((buf as usize, len));
    match next() {
        Resp::Data(n) => {
            let n = n.min(len);
            for i in 0..n {
                *buf.add(i) = STREAM[MOVED + i];
            }
            MOVED += n;
            n as libc::ssize_t
        }
        Resp::Eagain => fail(libc::EAGAIN),
        Resp::Eintr => fail(libc::EINTR),
        Resp::Reset => fail(libc::ECONNRESET),
        Resp::Eof => 0,
    }
}
#[allow(static_mut_refs)]
unsafe fn kernel_write(buf: *const u8, len: usize) -> libc::ssize_t {
    RANGES.push((buf as usize, len));
    match next() {
        r @ (Resp::Data(_) | Resp::Eof) => {
            let n = match r { Resp::Data(n) => n.min(len), _ => len.min(1) };
            for i in 0..n {
                SINK[MOVED + i] = *buf.add(i);
            }
            MOVED += n;
            n as libc::ssize_t
        }
        Resp::Eagain => fail(libc::EAGAIN),
        Resp::Eintr => fail(libc::EINTR),
        _ => fail(libc::ECONNRESET),
    }
}
extern "C" fn m_read(_fd: c_int, b: *mut c_void, l: libc::size_t) -> libc::ssize_t { unsafe { kernel_read(b.cast(), l) } }
extern "C" fn m_recv(_fd: c_int, b: *mut c_void, l: libc::size_t, _f: c_int) -> libc::ssize_t { unsafe { kernel_read(b.cast(), l) } }
extern "C" fn m_write(_fd: c_int, b: *const c_void, l: libc::size_t) -> libc::ssize_t { unsafe { kernel_write(b.cast(), l) } }
extern "C" fn m_send(_fd: c_int, b: *const c_void, l: libc::size_t, _f: c_int) -> libc::ssize_t { unsafe { kernel_write(b.cast(), l) } }

// ---- vectored kernel: records every request (count + elements as (buffer index, offset, len)) and
// really moves bytes between STREAM/SINK and the handed ranges
static mut VBUFS: [[u8; 8]; 4] = [[0; 8]; 4];
static mut VREQ: Vec<(usize, Vec<(usize, usize)>)> = Vec::new();
#[allow(static_mut_refs)]
unsafe fn kernel_vec(iov: *const libc::iovec, cnt: usize, is_read: bool) -> libc::ssize_t {
    let mut elems = Vec::new();
    let mut offered = 0;
    // a count beyond 4 elements cannot describe any array built from this harness's <= 4 iovecs: record it, do not read it
    for i in 0..cnt.min(4) {
        let e = *iov.add(i);
        elems.push((e.iov_base as usize, e.iov_len));
        offered += e.iov_len;
    }
    VREQ.push((cnt, elems.clone()));
    match next() {
        Resp::Data(n) => {
            let n = n.min(offered);
            let mut left = n;
            for (b, l) in elems {
                let k = left.min(l);
                for i in 0..k {
                    if is_read {
                        *(b as *mut u8).add(i) = STREAM[MOVED];
                    } else {
                        SINK[MOVED] = *(b as *const u8).add(i);
                    }
                    MOVED += 1;
                }
                left -= k;
            }
            n as libc::ssize_t
        }
        Resp::Eagain => fail(libc::EAGAIN),
        Resp::Eintr => fail(libc::EINTR),
        Resp::Reset => fail(libc::ECONNRESET),
        Resp::Eof => if is_read { 0 } else { fail(libc::ECONNRESET) },
    }
}
extern "C" fn m_readv(_fd: c_int, iov: *const libc::iovec, cnt: c_int) -> libc::ssize_t { unsafe { kernel_vec(iov, cnt as usize, true) } }
extern "C" fn m_writev(_fd: c_int, iov: *const libc::iovec, cnt: c_int) -> libc::ssize_t { unsafe { kernel_vec(iov, cnt as usize, false) } }
extern "C" fn m_recvmsg(_fd: c_int, m: *mut libc::msghdr, _f: c_int) -> libc::ssize_t { unsafe { kernel_vec((*m).msg_iov, (*m).msg_iovlen as usize, true) } }
extern "C" fn m_sendmsg(_fd: c_int, m: *const libc::msghdr, _f: c_int) -> libc::ssize_t { unsafe { kernel_vec((*m).msg_iov, (*m).msg_iovlen as usize, false) } }

fn parse_script(args: &[String]) -> Vec<Resp> {
    args.iter()
        .map(|a| match a.as_bytes()[0] {
            b'd' => Resp::Data(a[1..].parse().expect("dN")),
            b'a' => Resp::Eagain,
            b'i' => Resp::Eintr,
            b'r' => Resp::Reset,
            b'e' => Resp::Eof,
            _ => panic!("bad script item {a}"),
        })
        .collect()
}

fn socketpair(blocking: bool) -> (c_int, c_int) {
    let mut fds = [0 as c_int; 2];
    assert_eq!(0, unsafe { libc::socketpair(libc::AF_UNIX, libc::SOCK_STREAM, 0, fds.as_mut_ptr()) });
    if !blocking {
        syscall::set_non_blocking(fds[0]);
    }
    (fds[0], fds[1])
}

/// The epoll descriptors of this process that hold `fd` in their interest list, with the event mask (from /proc/self/fdinfo).
fn epoll_interest(fd: c_int) -> Vec<(i32, u32)> {
    let mut v = Vec::new();
    for e in std::fs::read_dir("/proc/self/fd").unwrap().flatten() {
        let n: i32 = e.file_name().to_string_lossy().parse().unwrap_or(-1);
        let link = std::fs::read_link(e.path()).map(|p| p.to_string_lossy().into_owned()).unwrap_or_default();
        if link.contains("eventpoll") {
            let info = std::fs::read_to_string(format!("/proc/self/fdinfo/{n}")).unwrap_or_default();
            for l in info.lines().filter(|l| l.starts_with("tfd:")) {
                let w: Vec<&str> = l.split_whitespace().collect();
                if w.get(1) == Some(&fd.to_string().as_str()) {
                    let mask = w.get(3).and_then(|m| u32::from_str_radix(m, 16).ok()).unwrap_or(0);
                    v.push((n, mask));
                }
            }
        }
    }
    v.sort_unstable();
    v
}

fn main() {
    let args: Vec<String> = std::env::args().collect();
    let case = args.get(1).map(String::as_str).unwrap_or("");
    let num = |i: usize| -> i64 { args[i].parse().expect("number") };
    match case {
        // select <tv_sec> <tv_usec>: nothing ready; prints elapsed time, result, errno
        "select" => {
            init_event_loops();
            let mut tv = libc::timeval { tv_sec: num(2), tv_usec: num(3) };
            let f: extern "C" fn(c_int, *mut libc::fd_set, *mut libc::fd_set, *mut libc::fd_set, *mut libc::timeval) -> c_int = mock_select;
            let t0 = Instant::now();
            let r = syscall::select(Some(&f), 0, std::ptr::null_mut(), std::ptr::null_mut(), std::ptr::null_mut(), &raw mut tv);
            let e = errno();
            println!("{{\"ret\": {r}, \"errno\": {e}, \"elapsed_us\": {}}}", t0.elapsed().as_micros());
        }
        // poll <timeout_ms>: nothing ready; prints elapsed time, result, errno
        "poll" => {
            init_event_loops();
            let f: extern "C" fn(*mut libc::pollfd, libc::nfds_t, c_int) -> c_int = mock_poll;
            let mut fds = libc::pollfd { fd: 0, events: libc::POLLIN, revents: 0 };
            let t0 = Instant::now();
            let r = syscall::poll(Some(&f), &raw mut fds, 1, num(2) as c_int);
            let e = errno();
            println!("{{\"ret\": {r}, \"errno\": {e}, \"elapsed_us\": {}}}", t0.elapsed().as_micros());
        }
        // io <read|recv|write|send> <len> <blocking 0|1> <script...>: one hooked single-buffer call on a real
        // socketpair descriptor with a scripted kernel in place of libc
        "io" => {
            init_event_loops();
            let entry = args[2].as_str();
            let len = num(3) as usize;
            let blocking = num(4) != 0;
            #[allow(static_mut_refs)]
            unsafe {
                SCRIPT = parse_script(&args[5..]);
                for i in 0..64 {
                    STREAM[i] = 0xA0 + i as u8;
                }
            }
            let (fd, _peer) = socketpair(blocking);
            if let Ok(ms) = std::env::var("OCV_LIMIT_MS") {
                let ms: i64 = ms.parse().expect("OCV_LIMIT_MS");
                let tv = libc::timeval { tv_sec: ms / 1000, tv_usec: (ms % 1000) * 1000 };
                for opt in [libc::SO_RCVTIMEO, libc::SO_SNDTIMEO] {
                    assert_eq!(0, unsafe {
                        libc::setsockopt(fd, libc::SOL_SOCKET, opt, (&raw const tv).cast(), std::mem::size_of::<libc::timeval>() as libc::socklen_t)
                    });
                }
            }
            let mut buf = [0x11u8; 64];
            for (i, b) in buf.iter_mut().enumerate() {
                *b = 0x40 + i as u8;
            }
            let p = buf.as_mut_ptr().cast::<c_void>();
            let t0 = Instant::now();
            let r = match entry {
                "read" => { let f: extern "C" fn(c_int, *mut c_void, libc::size_t) -> libc::ssize_t = m_read; syscall::read(Some(&f), fd, p, len) }
                "recv" => { let f: extern "C" fn(c_int, *mut c_void, libc::size_t, c_int) -> libc::ssize_t = m_recv; syscall::recv(Some(&f), fd, p, len, 0) }
                "write" => { let f: extern "C" fn(c_int, *const c_void, libc::size_t) -> libc::ssize_t = m_write; syscall::write(Some(&f), fd, p.cast_const(), len) }
                "send" => { let f: extern "C" fn(c_int, *const c_void, libc::size_t, c_int) -> libc::ssize_t = m_send; syscall::send(Some(&f), fd, p.cast_const(), len, 0) }
                _ => panic!("bad entry"),
            };
            let e = errno();
            let still_blocking = syscall::is_blocking(fd);
            #[allow(static_mut_refs)]
            unsafe {
                println!(
                    "{{\"ret\": {r}, \"errno\": {e}, \"moved\": {}, \"calls\": {}, \"last_errno\": {}, \"blocking_after\": {}, \"elapsed_us\": {}, \"buf\": {:?}, \"sink\": {:?}}}",
                    MOVED, CALLS, LAST_ERRNO, still_blocking, t0.elapsed().as_micros(), &buf[..8], &SINK[..8]
                );
            }
        }
        // vec <readv|writev|recvmsg|sendmsg> <blocking 0|1> <lens comma separated, <= 4 iovecs of <= 8 bytes> <script...>
        "vec" => {
            init_event_loops();
            let entry = args[2].as_str();
            let blocking = num(3) != 0;
            let lens: Vec<usize> = args[4].split(',').map(|x| x.parse().expect("len")).collect();
            #[allow(static_mut_refs)]
            unsafe {
                SCRIPT = parse_script(&args[5..]);
                for i in 0..64 {
                    STREAM[i] = 0xA0 + i as u8;
                }
                for (j, b) in VBUFS.iter_mut().enumerate() {
                    for (i, x) in b.iter_mut().enumerate() {
                        *x = (0x10 * (j as u8 + 1)) + i as u8;
                    }
                }
            }
            let (fd, _peer) = socketpair(blocking);
            // optional real kernel time limit (SO_RCVTIMEO / SO_SNDTIMEO), in milliseconds
            if let Ok(ms) = std::env::var("OCV_LIMIT_MS") {
                let ms: i64 = ms.parse().expect("OCV_LIMIT_MS");
                let tv = libc::timeval { tv_sec: ms / 1000, tv_usec: (ms % 1000) * 1000 };
                for opt in [libc::SO_RCVTIMEO, libc::SO_SNDTIMEO] {
                    assert_eq!(0, unsafe {
                        libc::setsockopt(fd, libc::SOL_SOCKET, opt, (&raw const tv).cast(), std::mem::size_of::<libc::timeval>() as libc::socklen_t)
                    });
                }
            }
            #[allow(static_mut_refs)]
            let bases: Vec<usize> = unsafe { VBUFS.iter_mut().map(|b| b.as_mut_ptr() as usize).collect() };
            let mut iovs: Vec<libc::iovec> = lens.iter().enumerate()
                .map(|(j, l)| libc::iovec { iov_base: bases[j] as *mut c_void, iov_len: *l }).collect();
            let n = iovs.len();
            let r = match entry {
                "readv" => { let f: extern "C" fn(c_int, *const libc::iovec, c_int) -> libc::ssize_t = m_readv; syscall::readv(Some(&f), fd, iovs.as_ptr(), n as c_int) }
                "writev" => { let f: extern "C" fn(c_int, *const libc::iovec, c_int) -> libc::ssize_t = m_writev; syscall::writev(Some(&f), fd, iovs.as_ptr(), n as c_int) }
                "recvmsg" => {
                    let f: extern "C" fn(c_int, *mut libc::msghdr, c_int) -> libc::ssize_t = m_recvmsg;
                    let mut m: libc::msghdr = unsafe { std::mem::zeroed() };
                    m.msg_iov = iovs.as_mut_ptr();
                    m.msg_iovlen = n;
                    syscall::recvmsg(Some(&f), fd, &raw mut m, 0)
                }
                "sendmsg" => {
                    let f: extern "C" fn(c_int, *const libc::msghdr, c_int) -> libc::ssize_t = m_sendmsg;
                    let mut m: libc::msghdr = unsafe { std::mem::zeroed() };
                    m.msg_iov = iovs.as_mut_ptr();
                    m.msg_iovlen = n;
                    syscall::sendmsg(Some(&f), fd, &raw const m, 0)
                }
                _ => panic!("bad entry"),
            };
            let e = errno();
            let still_blocking = syscall::is_blocking(fd);
            #[allow(static_mut_refs)]
            unsafe {
                // requests as [count, [[buffer index or -1, offset, len], ...]]
                let mut reqs = String::from("[");
                for (qi, (cnt, elems)) in VREQ.iter().enumerate() {
                    if qi > 0 { reqs.push(','); }
                    reqs.push_str(&format!("[{cnt},["));
                    for (ei, (b, l)) in elems.iter().enumerate() {
                        if ei > 0 { reqs.push(','); }
                        let mut which: i64 = -1;
                        let mut off = 0usize;
                        for (j, base) in bases.iter().enumerate() {
                            if *b >= *base && *b + *l <= *base + 8 { which = j as i64; off = *b - *base; }
                        }
                        reqs.push_str(&format!("[{which},{off},{l}]"));
                    }
                    reqs.push_str("]]");
                }
                reqs.push(']');
                let bufs: Vec<Vec<u8>> = VBUFS.iter().map(|b| b.to_vec()).collect();
                println!(
                    "{{\"ret\": {r}, \"errno\": {e}, \"moved\": {}, \"calls\": {}, \"last_errno\": {}, \"blocking_after\": {}, \"requests\": {reqs}, \"bufs\": {:?}, \"sink\": {:?}}}",
                    MOVED, CALLS, LAST_ERRNO, still_blocking, bufs, &SINK[..32]
                );
            }
        }
        // sockopt <op>...: history over two real stream sockets (slot 0 / slot 1). ops: `<slot>R<sec>.<usec>` set SO_RCVTIMEO
        // through the hooked setsockopt, `<slot>S<sec>.<usec>` set SO_SNDTIMEO, `<slot>r` / `<slot>s` query the limit hooked
        // reads / writes apply, `<slot>c` hooked close followed by a fresh socket that reuses the number.
        // Each query prints the applied limit next to what the real kernel reports for the socket (getsockopt).
        "sockopt" => {
            init_event_loops();
            let (a, _pa) = socketpair(true);
            let (b, _pb) = socketpair(true);
            let mut fds = [a, b];
            let mut peers = [_pa, _pb];
            let kernel_limit = |fd: c_int, name: c_int| -> u64 {
                let mut tv: libc::timeval = unsafe { std::mem::zeroed() };
                let mut len = std::mem::size_of::<libc::timeval>() as libc::socklen_t;
                assert_eq!(0, unsafe { libc::getsockopt(fd, libc::SOL_SOCKET, name, (&raw mut tv).cast(), &raw mut len) });
                let ns = (tv.tv_sec as u64) * 1_000_000_000 + (tv.tv_usec as u64) * 1_000;
                if ns == 0 { u64::MAX } else { ns }
            };
            let mut out = String::from("[");
            for (i, op) in args[2..].iter().enumerate() {
                if i > 0 { out.push(','); }
                let slot = (op.as_bytes()[0] - b'0') as usize;
                let fd = fds[slot];
                match op.as_bytes()[1] {
                    k @ (b'R' | b'S') => {
                        let (sec, usec) = op[2..].split_once('.').expect("sec.usec");
                        let tv = libc::timeval { tv_sec: sec.parse().expect("sec"), tv_usec: usec.parse().expect("usec") };
                        let name = if k == b'R' { libc::SO_RCVTIMEO } else { libc::SO_SNDTIMEO };
                        // progress marker: if the hooked call aborts the process the marker shows which operation did
                        eprintln!("op {i} {op}: calling hooked setsockopt");
                        let r = syscall::setsockopt(None, fd, libc::SOL_SOCKET, name, (&raw const tv).cast(), std::mem::size_of::<libc::timeval>() as libc::socklen_t);
                        out.push_str(&format!("{{\"op\": \"{op}\", \"ret\": {r}}}"));
                    }
                    k @ (b'r' | b's') => {
                        let (got, want) = if k == b'r' {
                            (syscall::recv_time_limit(fd), kernel_limit(fd, libc::SO_RCVTIMEO))
                        } else {
                            (syscall::send_time_limit(fd), kernel_limit(fd, libc::SO_SNDTIMEO))
                        };
                        out.push_str(&format!("{{\"op\": \"{op}\", \"applied\": {got}, \"kernel\": {want}}}"));
                    }
                    k @ (b'c' | b'C') => {
                        // 'C': the kernel releases the descriptor but reports -1/EINTR (Linux does release it in that case)
                        extern "C" fn close_eintr(fd: c_int) -> c_int {
                            unsafe {
                                libc::close(fd);
                                *libc::__errno_location() = libc::EINTR;
                            }
                            -1
                        }
                        let f: extern "C" fn(c_int) -> c_int = close_eintr;
                        let r = if k == b'c' { syscall::close(None, fd) } else { syscall::close(Some(&f), fd) };
                        unsafe { libc::close(peers[slot]); }
                        let (n, pn) = socketpair(true);
                        fds[slot] = n;
                        peers[slot] = pn;
                        out.push_str(&format!("{{\"op\": \"{op}\", \"ret\": {r}, \"old_fd\": {fd}, \"new_fd\": {n}}}"));
                    }
                    _ => panic!("bad op {op}"),
                }
            }
            out.push(']');
            println!("{{\"ops\": {out}}}");
        }
        // wake_latency <trials> <delay_us>: a coroutine blocks in a hooked recv on a socket; the peer writes
        // `delay_us` after the coroutine started waiting. Prints the latency seen by the coroutine per trial.
        "wake_latency" => {
            use std::sync::atomic::{AtomicU64, Ordering};
            static STARTED: AtomicU64 = AtomicU64::new(0);
            init_event_loops();
            let trials = num(2) as usize;
            let delay = std::time::Duration::from_micros(num(3) as u64);
            let mut lat = Vec::new();
            for _ in 0..trials {
                let (fd, peer) = socketpair(true);
                STARTED.store(0, Ordering::SeqCst);
                let h = open_coroutine_core::net::EventLoops::submit_task(
                    None,
                    move |_| {
                        let mut b = [0u8; 1];
                        let t0 = Instant::now();
                        STARTED.store(1, Ordering::SeqCst);
                        let r = syscall::recv(None, fd, b.as_mut_ptr().cast(), 1, 0);
                        assert_eq!(r, 1);
                        Some(t0.elapsed().as_micros() as usize)
                    },
                    None,
                    None,
                );
                while STARTED.load(Ordering::SeqCst) == 0 {
                    std::thread::yield_now();
                }
                std::thread::sleep(delay);
                assert_eq!(1, unsafe { libc::write(peer, [7u8].as_ptr().cast(), 1) });
                let r = h.timeout_join(std::time::Duration::from_secs(5)).expect("join").expect("task");
                lat.push(r.unwrap_or(0));
                // hooked close (what an application under the hook does), so that the runtime drops its interest
                assert_eq!(0, syscall::close(None, fd));
                unsafe {
                    libc::close(peer);
                }
            }
            println!("{{\"delay_us\": {}, \"latency_us\": {:?}}}", delay.as_micros(), lat);
        }
        // two_loops <trials>: two event loops. A task reads one byte from a socket (its loop registers read interest with its
        // epoll instance); afterwards a second task that runs on the OTHER loop blocks in a hooked recv on the same socket.
        // While it is blocked the epoll instances of the process are inspected through /proc/self/fdinfo: prints which epoll
        // descriptors hold the socket, the threads the two tasks ran on, and the wake-up latency of the second task for a
        // byte written 2 ms after it blocked (readiness wake ~2 ms, slice-timeout wake ~10 ms).
        "two_loops" => {
            use std::sync::atomic::{AtomicU64, Ordering};
            use std::sync::Mutex;
            static STARTED: AtomicU64 = AtomicU64::new(0);
            static DONE: AtomicU64 = AtomicU64::new(0);
            static NAMES: Mutex<Vec<String>> = Mutex::new(Vec::new());
            let mut cfg = open_coroutine_core::config::Config::single();
            cfg.set_hook(false);
            cfg.set_event_loop_size(2);
            open_coroutine_core::net::EventLoops::init(&cfg);
            let epolls_with = |fd: c_int| -> Vec<i32> {
                let mut v = Vec::new();
                for e in std::fs::read_dir("/proc/self/fd").unwrap().flatten() {
                    let n: i32 = e.file_name().to_string_lossy().parse().unwrap_or(-1);
                    let link = std::fs::read_link(e.path()).map(|p| p.to_string_lossy().into_owned()).unwrap_or_default();
                    if link.contains("eventpoll") {
                        let info = std::fs::read_to_string(format!("/proc/self/fdinfo/{n}")).unwrap_or_default();
                        if info.lines().any(|l| l.split_whitespace().nth(1) == Some(&fd.to_string()) && l.starts_with("tfd:")) {
                            v.push(n);
                        }
                    }
                }
                v.sort_unstable();
                v
            };
            let trials = num(2) as usize;
            let mut results = Vec::new();
            for _ in 0..trials {
                let (fd, peer) = socketpair(true);
                let mut run_task = |delay_us: u64| -> (String, usize, Vec<i32>) {
                    STARTED.store(0, Ordering::SeqCst);
                    DONE.store(0, Ordering::SeqCst);
                    let _h = open_coroutine_core::net::EventLoops::submit_task(
                        None,
                        move |_| {
                            NAMES.lock().unwrap().push(std::thread::current().name().unwrap_or("?").to_string());
                            let mut b = [0u8; 1];
                            let t0 = Instant::now();
                            STARTED.store(1, Ordering::SeqCst);
                            let r = syscall::recv(None, fd, b.as_mut_ptr().cast(), 1, 0);
                            assert_eq!(r, 1);
                            if std::env::var("OCV_TRACE").is_ok() { eprintln!("task done on {:?} after {:?}", std::thread::current().name(), t0.elapsed()); }
                            // (the JoinHandle is not used to collect the result: a task run by another event loop than the one it
                            // was submitted to is not found by join - C02 - which is not what this case is about)
                            DONE.store(t0.elapsed().as_micros() as u64 + 1, Ordering::SeqCst);
                            None
                        },
                        None,
                        None,
                    );
                    while STARTED.load(Ordering::SeqCst) == 0 {
                        std::thread::yield_now();
                    }
                    std::thread::sleep(std::time::Duration::from_micros(delay_us));
                    let holders = epolls_with(fd);
                    if std::env::var("OCV_TRACE").is_ok() { eprintln!("task started; epolls holding fd {fd}: {holders:?}"); }
                    assert_eq!(1, unsafe { libc::write(peer, [7u8].as_ptr().cast(), 1) });
                    let t_wait = Instant::now();
                    while DONE.load(Ordering::SeqCst) == 0 && t_wait.elapsed().as_secs() < 5 {
                        std::thread::yield_now();
                    }
                    let lat = DONE.load(Ordering::SeqCst).saturating_sub(1) as usize;
                    let name = NAMES.lock().unwrap().pop().unwrap_or_default();
                    (name, lat, holders)
                };
                // first task, then tasks until one runs on a different event-loop thread (round robin / stealing decide)
                let (n1, _l1, h1) = run_task(2000);
                let mut second = None;
                for _ in 0..8 {
                    let (n2, l2, h2) = run_task(2000);
                    if n2 != n1 {
                        second = Some((n2, l2, h2));
                        break;
                    }
                }
                assert_eq!(0, syscall::close(None, fd));
                unsafe { libc::close(peer); }
                if let Some((n2, l2, h2)) = second {
                    results.push(format!(
                        "{{\"first_thread\": \"{n1}\", \"epolls_after_first\": {h1:?}, \"second_thread\": \"{n2}\", \"epolls_while_second_waits\": {h2:?}, \"second_latency_us\": {l2}}}"
                    ));
                }
            }
            println!("{{\"trials\": [{}]}}", results.join(","));
        }
        // interest_step <none|read|write|both> <delivered 0|1> <op>: one socket X on the single event loop. The state is built
        // with real waits (X is not readable and its send buffer is full, so the 5 ms waits time out and the interests stay
        // registered); with delivered=1 X is then made ready and the event is delivered through select (which consumes the
        // waiting-token records but not the interests). Then ONE operation: wait_read | wait_write | del_both | del_read |
        // del_write | close (runtime drops interest, kernel closes) | hooked_close | event. Prints the epoll interest mask of
        // X's number afterwards and the mask expected from the outstanding interests; after a close the number is reused by a
        // new socket that waits for read readiness (expected: read interest only).
        "interest_step" => {
            use open_coroutine_core::net::EventLoops;
            use std::time::Duration;
            init_event_loops();
            let (state, delivered, op) = (args[2].as_str(), num(3) != 0, args[4].as_str());
            let (x, peer) = socketpair(true);
            unsafe {
                let fl = libc::fcntl(x, libc::F_GETFL);
                libc::fcntl(x, libc::F_SETFL, fl | libc::O_NONBLOCK);
                let chunk = [0u8; 4096];
                while libc::write(x, chunk.as_ptr().cast(), chunk.len()) > 0 {}
                let fl = libc::fcntl(peer, libc::F_GETFL);
                libc::fcntl(peer, libc::F_SETFL, fl | libc::O_NONBLOCK);
            }
            let short = Some(Duration::from_millis(5));
            let (mut r, mut w) = (state == "read" || state == "both", state == "write" || state == "both");
            if r { EventLoops::wait_read_event(x, short).expect("wait read"); }
            if w { EventLoops::wait_write_event(x, short).expect("wait write"); }
            let make_ready = |rd: bool, wr: bool| unsafe {
                if rd { assert_eq!(1, libc::write(peer, [7u8].as_ptr().cast(), 1)); }
                if wr { let mut b = [0u8; 65536]; while libc::read(peer, b.as_mut_ptr().cast(), b.len()) > 0 {} }
            };
            if delivered && (r || w) {
                make_ready(r, w);
                EventLoops::wait_event(Some(Duration::from_millis(20))).expect("wait_event");
            }
            let mut closed = false;
            let mut op_err = String::new();
            let mut note = |res: std::io::Result<()>| if let Err(e) = res { op_err = format!("{e}"); };
            match op {
                "wait_read" => { note(EventLoops::wait_read_event(x, short)); r = true; }
                "wait_write" => { note(EventLoops::wait_write_event(x, short)); w = true; }
                "del_both" => { note(EventLoops::del_event(x)); r = false; w = false; }
                "del_read" => { note(EventLoops::del_read_event(x)); r = false; }
                "del_write" => { note(EventLoops::del_write_event(x)); w = false; }
                "close" => { note(EventLoops::del_event(x)); unsafe { libc::close(x); } closed = true; }
                "hooked_close" => { assert_eq!(0, syscall::close(None, x)); closed = true; }
                "event" => { make_ready(true, true); note(EventLoops::wait_event(Some(Duration::from_millis(20)))); }
                _ => panic!("bad op {op}"),
            }
            let (fd, want) = if closed {
                unsafe { libc::close(peer); }
                let (nx, _np) = socketpair(true);
                if let Err(e) = EventLoops::wait_read_event(nx, short) { op_err = format!("wait on the reused number: {e}"); }
                (nx, 0x1u32)
            } else {
                (x, (r as u32) | ((w as u32) << 2))
            };
            let interest = epoll_interest(fd);
            let got = interest.iter().fold(0u32, |a, (_, m)| a | (m & 0x5));
            println!("{{\"state\": \"{state}\", \"delivered\": {delivered}, \"op\": \"{op}\", \"old_fd\": {x}, \"fd\": {fd}, \"reused_same_number\": {}, \"op_error\": \"{op_err}\", \"expected_mask\": {want}, \"os_mask\": {got}}}", !closed || fd == x);
            std::process::exit(0);
        }
        // interest_refused <r|w>: a wait on a regular file (epoll refuses it with EPERM) fails; the number is closed through the
        // hook and reused by a socket (dup2); a wait on the socket must then register it with the epoll instance.
        "interest_refused" => {
            use open_coroutine_core::net::EventLoops;
            use std::os::fd::IntoRawFd;
            use std::time::Duration;
            init_event_loops();
            let write = args[2] == "w";
            let path = format!("/tmp/ocv-replay-regular-{}", std::process::id());
            let f = std::fs::File::create(&path).expect("create").into_raw_fd();
            _ = std::fs::remove_file(&path);
            let wait = |fd: c_int, ms: u64| if write { EventLoops::wait_write_event(fd, Some(Duration::from_millis(ms))) } else { EventLoops::wait_read_event(fd, Some(Duration::from_millis(ms))) };
            let first_failed = wait(f, 10).is_err();
            let close_ret = syscall::close(None, f);
            let (s, _peer) = socketpair(true);
            // fill the send buffer so that a write wait does not complete at once
            if write {
                unsafe {
                    let fl = libc::fcntl(s, libc::F_GETFL);
                    libc::fcntl(s, libc::F_SETFL, fl | libc::O_NONBLOCK);
                    let chunk = [0u8; 4096];
                    while libc::write(s, chunk.as_ptr().cast(), chunk.len()) > 0 {}
                }
            }
            assert_eq!(f, unsafe { libc::dup2(s, f) });
            let second_ok = wait(f, 20).is_ok();
            let interest = epoll_interest(f);
            let want: u32 = if write { 0x4 } else { 0x1 };
            let registered = interest.iter().any(|(_, m)| m & want != 0);
            println!("{{\"first_wait_failed\": {first_failed}, \"close_ret\": {close_ret}, \"second_wait_ok\": {second_ok}, \"fd\": {f}, \"epoll_interest\": {:?}, \"registered\": {registered}}}",
                interest.iter().map(|(e, m)| format!("{e}:{m:x}")).collect::<Vec<_>>());
            std::process::exit(0);
        }
        // ws_seq <0|1> <pre>: sequential bookkeeping of the plain work-steal queue.
        //  0: the local pop whose tick is a multiple of 61 takes the oldest shared item; afterwards the shared queue's reported
        //     length must equal what its own pop() drains.  1: a full local queue (capacity 2) overflows into a shared queue
        //     that already holds <pre> items; reported length + local items must equal everything pushed, and pop() drains it.
        "ws_seq" => {
            let kind = num(2);
            let pre = num(3) as usize;
            if kind == 0 {
                let q = open_coroutine_core::common::work_steal::WorkStealQueue::<usize>::new(1, 128);
                let local = q.local_queue();
                for i in 0..100 { local.push(1000 + i); }
                for _ in 0..60 { assert!(local.pop().is_some()); }
                for i in 0..pre { q.push(10 + i); }
                let got = local.pop();
                let reported = q.len();
                let mut drained = 0;
                while q.pop().is_some() { drained += 1; }
                println!("{{\"kind\": 0, \"pre\": {pre}, \"pop61\": {}, \"reported_len\": {reported}, \"drained_by_pop\": {drained}, \"expected\": {}}}",
                    got.map_or(-1i64, |v| v as i64), pre.saturating_sub(1));
                std::mem::forget(local);
                std::mem::forget(q);
            } else {
                let q = open_coroutine_core::common::work_steal::WorkStealQueue::<usize>::new(1, 2);
                let local = q.local_queue();
                for i in 0..pre { q.push(10 + i); }
                local.push(1);
                local.push(2);
                local.push(3);
                let in_local = local.len();
                let reported = q.len();
                let mut drained = 0;
                while q.pop().is_some() { drained += 1; }
                println!("{{\"kind\": 1, \"pre\": {pre}, \"in_local\": {in_local}, \"reported_len\": {reported}, \"drained_by_pop\": {drained}, \"expected\": {}}}",
                    pre + 3 - in_local);
                std::mem::forget(local);
                std::mem::forget(q);
            }
            // (items stranded behind a stale length make the queue's Drop assertion fire: leave without running destructors)
            std::process::exit(0);
        }
        // remaining_waiter <drop_write 0|1>: one event loop, two coroutines with interest in ONE socket X - R waits to read it, W
        // waits to write it (send buffer full). One of them gives up after 50 ms and drops its interest (del_write_event /
        // del_read_event, what the shutdown hook does); then X becomes ready for the other one. Prints how long the remaining
        // waiter needed to come back after X became ready (readiness: milliseconds; only its own 2 s timeout: ~2 s).
        "remaining_waiter" => {
            use open_coroutine_core::common::constants::{SyscallName, SyscallState};
            use open_coroutine_core::net::EventLoops;
            use open_coroutine_core::scheduler::{SchedulableCoroutine, Scheduler};
            use std::sync::atomic::{AtomicU64, Ordering};
            use std::time::Duration;
            static QUITTER_DONE: AtomicU64 = AtomicU64::new(0);
            static STAYER_WAITING: AtomicU64 = AtomicU64::new(0);
            static STAYER_DONE_US: AtomicU64 = AtomicU64::new(0);
            static mut T_BASE: Option<Instant> = None;
            let drop_write = num(2) != 0;
            init_event_loops();
            unsafe { T_BASE = Some(Instant::now()); }
            let now_us = || unsafe { (*(&raw const T_BASE)).unwrap().elapsed().as_micros() as u64 + 1 };
            let (x, peer) = socketpair(true);
            // fill X's send buffer: X is not writable until the peer reads
            unsafe {
                let fl = libc::fcntl(x, libc::F_GETFL);
                libc::fcntl(x, libc::F_SETFL, fl | libc::O_NONBLOCK);
                let chunk = [0u8; 4096];
                while libc::write(x, chunk.as_ptr().cast(), chunk.len()) > 0 {}
            }
            let spawn = |f: Box<dyn FnOnce(&SchedulableCoroutine<'static>) + 'static>| {
                let h = EventLoops::submit_task(
                    None,
                    move |_| {
                        let co: SchedulableCoroutine<'static> = open_coroutine_core::co!(
                            None,
                            move |_, ()| {
                                f(SchedulableCoroutine::current().expect("not in coroutine"));
                                None
                            },
                            None,
                            None
                        )
                        .expect("create coroutine");
                        _ = Scheduler::current().expect("no scheduler").submit_raw_co(co).unwrap();
                        None
                    },
                    None,
                    None,
                );
                _ = h.timeout_join(Duration::from_secs(5));
            };
            let long = Duration::from_secs(2);
            let short = Duration::from_millis(50);
            // the one that stays
            spawn(Box::new(move |co| {
                let name = if drop_write { SyscallName::recv } else { SyscallName::send };
                co.syscall((), name, SyscallState::Executing).expect("enter syscall");
                STAYER_WAITING.store(1, Ordering::SeqCst);
                if drop_write { EventLoops::wait_read_event(x, Some(long)).expect("wait"); } else { EventLoops::wait_write_event(x, Some(long)).expect("wait"); }
                co.running().expect("leave syscall");
                STAYER_DONE_US.store(unsafe { (*(&raw const T_BASE)).unwrap().elapsed().as_micros() as u64 + 1 }, Ordering::SeqCst);
            }));
            while STAYER_WAITING.load(Ordering::SeqCst) == 0 { std::thread::sleep(Duration::from_millis(1)); }
            std::thread::sleep(Duration::from_millis(20));
            // the one that gives up
            spawn(Box::new(move |co| {
                let name = if drop_write { SyscallName::send } else { SyscallName::recv };
                co.syscall((), name, SyscallState::Executing).expect("enter syscall");
                if drop_write {
                    EventLoops::wait_write_event(x, Some(short)).expect("wait");
                    EventLoops::del_write_event(x).expect("del_write_event");
                } else {
                    EventLoops::wait_read_event(x, Some(short)).expect("wait");
                    EventLoops::del_read_event(x).expect("del_read_event");
                }
                co.running().expect("leave syscall");
                QUITTER_DONE.store(1, Ordering::SeqCst);
            }));
            let t_wait = Instant::now();
            while QUITTER_DONE.load(Ordering::SeqCst) == 0 && t_wait.elapsed() < Duration::from_secs(5) { std::thread::sleep(Duration::from_millis(1)); }
            let quitter_done = QUITTER_DONE.load(Ordering::SeqCst) != 0;
            std::thread::sleep(Duration::from_millis(50));
            let early = STAYER_DONE_US.load(Ordering::SeqCst) != 0;
            let t_ready = now_us();
            unsafe {
                if drop_write {
                    assert_eq!(1, libc::write(peer, [7u8].as_ptr().cast(), 1));
                } else {
                    // the peer drains everything: X becomes writable
                    let fl = libc::fcntl(peer, libc::F_GETFL);
                    libc::fcntl(peer, libc::F_SETFL, fl | libc::O_NONBLOCK);
                    let mut b = [0u8; 65536];
                    while libc::read(peer, b.as_mut_ptr().cast(), b.len()) > 0 {}
                }
            }
            let t_wait = Instant::now();
            while STAYER_DONE_US.load(Ordering::SeqCst) == 0 && t_wait.elapsed() < Duration::from_secs(4) { std::thread::sleep(Duration::from_millis(1)); }
            let done = STAYER_DONE_US.load(Ordering::SeqCst);
            println!("{{\"drop_write\": {}, \"quitter_done\": {quitter_done}, \"stayer_back_before_ready\": {early}, \"stayer_back\": {}, \"latency_us\": {}}}",
                drop_write as u8, done != 0, if done == 0 { -1i64 } else { done as i64 - t_ready as i64 });
            std::process::exit(0);
        }
        // ws_len_race <ordered 0|1> <runs> <threads> <per_thread>: threads push concurrently to the SHARED queue; afterwards
        // (all threads joined) the reported length is compared with the pushes made and with what a drain returns.
        "ws_len_race" => {
            // the queue types are shared between threads by the runtime through raw 'static references (BeanFactory); the
            // shared-queue operations used here only touch the Injector(s) and the atomic counter
            struct Shared<T>(T);
            unsafe impl<T> Sync for Shared<T> {}
            unsafe impl<T> Send for Shared<T> {}
            let ordered = num(2) != 0;
            let (runs, threads, per) = (num(3) as usize, num(4) as usize, num(5) as usize);
            // optional 6th argument "mixed" (plain queue only): pops race with the pushes
            let mixed = !ordered && args.get(6).map(String::as_str) == Some("mixed");
            let mut mixed_popped = 0usize;
            let mut bad = Vec::new();
            for run in 0..runs {
                let (reported, drained) = if ordered {
                    let q = std::sync::Arc::new(Shared(open_coroutine_core::common::ordered_work_steal::OrderedWorkStealQueue::<usize>::new(1, 4)));
                    let hs: Vec<_> = (0..threads).map(|t| { let q = q.clone(); std::thread::spawn(move || { let q = &*q; for i in 0..per { q.0.push_with_priority((i % 2) as i64, t * per + i); } }) }).collect();
                    for h in hs { h.join().unwrap(); }
                    let reported = q.0.len();
                    let mut n = 0;
                    while q.0.pop().is_some() { n += 1; }
                    (reported, n)
                } else if mixed {
                    // one pusher (in small bursts, so that the queue keeps running empty) and `threads` poppers racing with it
                    let q = std::sync::Arc::new(Shared(open_coroutine_core::common::work_steal::WorkStealQueue::<usize>::new(1, 4)));
                    let done = std::sync::Arc::new(std::sync::atomic::AtomicBool::new(false));
                    let poppers: Vec<_> = (0..threads).map(|_| { let q = q.clone(); let done = done.clone(); std::thread::spawn(move || { let q = &*q; let mut n = 0usize; while !done.load(std::sync::atomic::Ordering::Acquire) { if q.0.pop().is_some() { n += 1; } } n }) }).collect();
                    for i in 0..per { q.0.push(i); if i % 3 == 0 { std::thread::yield_now(); } }
                    std::thread::sleep(std::time::Duration::from_millis(2));
                    done.store(true, std::sync::atomic::Ordering::Release);
                    let popped: usize = poppers.into_iter().map(|h| h.join().unwrap()).sum();
                    let reported = q.0.len();
                    let mut n = 0;
                    while q.0.pop().is_some() { n += 1; }
                    // everything pushed must be accounted for: popped by the threads, or still reported AND drainable
                    mixed_popped = popped;
                    (reported, n)
                } else {
                    let q = std::sync::Arc::new(Shared(open_coroutine_core::common::work_steal::WorkStealQueue::<usize>::new(1, 4)));
                    let hs: Vec<_> = (0..threads).map(|t| { let q = q.clone(); std::thread::spawn(move || { let q = &*q; for i in 0..per { q.0.push(t * per + i); } }) }).collect();
                    for h in hs { h.join().unwrap(); }
                    let reported = q.0.len();
                    let mut n = 0;
                    while q.0.pop().is_some() { n += 1; }
                    (reported, n)
                };
                if mixed {
                    if reported != drained || mixed_popped + drained != per {
                        bad.push(format!("{{\"run\": {run}, \"pushed\": {per}, \"popped_by_threads\": {mixed_popped}, \"reported_len\": {reported}, \"drained_by_pop\": {drained}}}"));
                    }
                    continue;
                }
                if reported != threads * per || drained != threads * per {
                    bad.push(format!("{{\"run\": {run}, \"pushed\": {}, \"reported_len\": {reported}, \"drained_by_pop\": {drained}}}", threads * per));
                }
            }
            println!("{{\"runs\": {runs}, \"bad\": [{}]}}", bad.join(","));
            // items stranded behind a stale length make the queue's Drop assertion fire: leave without running destructors
            std::process::exit(0);
        }
        // join_cross_loop <tasks>: two event loops; trivial tasks are submitted and joined with a 1 s timeout. Prints, per task,
        // whether it ran, on which thread, and whether the join found its result.
        "join_cross_loop" => {
            use std::sync::atomic::{AtomicUsize, Ordering};
            use std::sync::Mutex;
            static RAN: AtomicUsize = AtomicUsize::new(0);
            static NAMES: Mutex<Vec<(usize, String)>> = Mutex::new(Vec::new());
            let mut cfg = open_coroutine_core::config::Config::single();
            cfg.set_hook(false);
            cfg.set_event_loop_size(2);
            open_coroutine_core::net::EventLoops::init(&cfg);
            let n = num(2) as usize;
            let mut out = Vec::new();
            for i in 0..n {
                let before = RAN.load(Ordering::SeqCst);
                let h = open_coroutine_core::net::EventLoops::submit_task(
                    None,
                    move |_| {
                        NAMES.lock().unwrap().push((i, std::thread::current().name().unwrap_or("?").to_string()));
                        _ = RAN.fetch_add(1, Ordering::SeqCst);
                        Some(1000 + i)
                    },
                    None,
                    None,
                );
                let t0 = Instant::now();
                let r = h.timeout_join(std::time::Duration::from_secs(1));
                let waited = t0.elapsed().as_millis();
                let ran = RAN.load(Ordering::SeqCst) > before;
                let thread = NAMES.lock().unwrap().iter().find(|(j, _)| *j == i).map(|(_, n)| n.clone()).unwrap_or_default();
                let joined = match r { Ok(Ok(Some(v))) => format!("{v}"), Ok(Ok(None)) => "null".into(), Ok(Err(_)) => "\"task error\"".into(), Err(_) => "\"timeout\"".into() };
                out.push(format!("{{\"task\": {i}, \"ran\": {ran}, \"thread\": \"{thread}\", \"join\": {joined}, \"waited_ms\": {waited}}}"));
            }
            println!("{{\"tasks\": [{}]}}", out.join(","));
            std::process::exit(0);
        }
        // ows_history <cap> <op>...: single-threaded history on an OrderedWorkStealQueue with two local handles. ops: `p<l>:<prio>`
        // push the next item number to local l, `o<l>` pop from local l, `g:<prio>` push to the shared queue. A watchdog aborts
        // with exit code 3 when one operation does not return within 2 s. Prints every pop result and the final occupancy.
        "ows_history" => {
            use std::sync::atomic::{AtomicUsize, Ordering};
            static PROGRESS: AtomicUsize = AtomicUsize::new(0);
            static DONE: AtomicUsize = AtomicUsize::new(0);
            let cap = num(2) as usize;
            let q = open_coroutine_core::common::ordered_work_steal::OrderedWorkStealQueue::<usize>::new(2, cap);
            let l = [q.local_queue(), q.local_queue()];
            let ops: Vec<String> = args[3..].to_vec();
            let nops = ops.len();
            std::thread::spawn(move || {
                let mut last = (0usize, Instant::now());
                loop {
                    std::thread::sleep(std::time::Duration::from_millis(50));
                    if DONE.load(Ordering::SeqCst) == 1 { return; }
                    let p = PROGRESS.load(Ordering::SeqCst);
                    if p != last.0 { last = (p, Instant::now()); }
                    if last.1.elapsed().as_secs() >= 2 {
                        println!("{{\"spin_at_op\": {p}, \"ops\": {nops}}}");
                        std::process::exit(3);
                    }
                }
            });
            let mut next = 0usize;
            let mut out = Vec::new();
            for (i, op) in ops.iter().enumerate() {
                PROGRESS.store(i, Ordering::SeqCst);
                let b = op.as_bytes();
                match b[0] {
                    b'p' => {
                        let li = (b[1] - b'0') as usize;
                        let prio: i64 = op[3..].parse().expect("prio");
                        l[li].push_with_priority(prio, next);
                        next += 1;
                    }
                    b'g' => {
                        let prio: i64 = op[2..].parse().expect("prio");
                        q.push_with_priority(prio, next);
                        next += 1;
                    }
                    b'o' => {
                        let li = (b[1] - b'0') as usize;
                        let r = l[li].pop();
                        out.push(format!("{{\"op\": {i}, \"local\": {li}, \"got\": {}}}", r.map_or("null".to_string(), |v| v.to_string())));
                    }
                    _ => panic!("bad op {op}"),
                }
            }
            DONE.store(1, Ordering::SeqCst);
            println!("{{\"pushed\": {next}, \"pops\": [{}], \"len_seen_by_local0\": {}, \"shared_len\": {}}}", out.join(","), l[0].len(), q.len());
            std::process::exit(0);
        }
        // beans_race <rounds> <threads>: threads released together ask for the same fresh name; counts rounds in which they did not
        // all get the instance a later lookup returns.
        "beans_race" => {
            use open_coroutine_core::common::beans::BeanFactory;
            use std::sync::{Arc, Barrier};
            #[derive(Default)]
            struct Bean(#[allow(dead_code)] u64);
            let (rounds, threads) = (num(2) as usize, num(3) as usize);
            // optional 4th argument "mut": the threads use the mutable lookup, get_mut_or_default
            let mutable = args.get(4).map(String::as_str) == Some("mut");
            let mut diverging = 0;
            for r in 0..rounds {
                let name: &'static str = Box::leak(format!("ocv-bean-{r}").into_boxed_str());
                let barrier = Arc::new(Barrier::new(threads));
                let hs: Vec<_> = (0..threads).map(|_| { let b = barrier.clone(); std::thread::spawn(move || { b.wait(); if mutable { std::ptr::from_ref(unsafe { BeanFactory::get_mut_or_default::<Bean>(name) }) as usize } else { std::ptr::from_ref(BeanFactory::get_or_default::<Bean>(name)) as usize } }) }).collect();
                let got: Vec<usize> = hs.into_iter().map(|h| h.join().unwrap()).collect();
                let later = std::ptr::from_ref(BeanFactory::get_or_default::<Bean>(name)) as usize;
                if got.iter().any(|g| *g != later) { diverging += 1; }
            }
            println!("{{\"rounds\": {rounds}, \"threads\": {threads}, \"diverging_rounds\": {diverging}}}");
        }
        // join_race <tasks> <timeout_ms>: ONE event loop; trivial tasks are submitted and joined at once with the given timeout.
        // A join that waited its whole timeout although the task ran is a lost wake-up (or a lost result).
        "join_race" => {
            use std::sync::atomic::{AtomicUsize, Ordering};
            static RAN: AtomicUsize = AtomicUsize::new(0);
            init_event_loops();
            let (n, to) = (num(2) as usize, num(3) as u64);
            let (mut slow, mut lost) = (0, 0);
            for i in 0..n {
                let before = RAN.load(Ordering::SeqCst);
                let h = open_coroutine_core::net::EventLoops::submit_task(None, move |_| { _ = RAN.fetch_add(1, Ordering::SeqCst); Some(i) }, None, None);
                let t0 = Instant::now();
                let r = h.timeout_join(std::time::Duration::from_millis(to));
                let waited = t0.elapsed().as_millis() as u64;
                // give a late task time to finish before deciding that it ran
                let t1 = Instant::now();
                while RAN.load(Ordering::SeqCst) == before && t1.elapsed().as_millis() < 200 { std::thread::yield_now(); }
                let ran = RAN.load(Ordering::SeqCst) > before;
                if ran && waited >= to { slow += 1; }
                if ran && !matches!(r, Ok(Ok(Some(v))) if v == i) { lost += 1; }
            }
            println!("{{\"tasks\": {n}, \"timeout_ms\": {to}, \"joins_that_waited_the_whole_timeout\": {slow}, \"joins_without_the_result\": {lost}}}");
            std::process::exit(0);
        }
        // join_rejoin: the single event loop is kept busy for 150 ms, a task is queued behind that; a first join with a 20 ms
        // limit times out, a second join with a 2 s limit must be woken when the task finishes (~130 ms later).
        "join_rejoin" => {
            init_event_loops();
            let _busy = open_coroutine_core::net::EventLoops::submit_task(None, |_| { std::thread::sleep(std::time::Duration::from_millis(150)); None }, None, None);
            std::thread::sleep(std::time::Duration::from_millis(10));
            let h = open_coroutine_core::net::EventLoops::submit_task(None, |_| Some(77), None, None);
            let first = h.timeout_join(std::time::Duration::from_millis(20));
            let t0 = Instant::now();
            let second = h.timeout_join(std::time::Duration::from_millis(2000));
            let waited = t0.elapsed().as_millis();
            println!("{{\"first_timed_out\": {}, \"second_ok\": {}, \"second_waited_ms\": {waited}}}", first.is_err(), matches!(second, Ok(Ok(Some(77)))));
            std::process::exit(0);
        }
        // join_poll: a task has finished; the handle is polled with a zero duration (deadline = now) and with an expired absolute deadline.
        "join_poll" => {
            use std::sync::atomic::{AtomicUsize, Ordering};
            static RAN: AtomicUsize = AtomicUsize::new(0);
            init_event_loops();
            let mut res = Vec::new();
            for k in 0..2 {
                RAN.store(0, Ordering::SeqCst);
                let h = open_coroutine_core::net::EventLoops::submit_task(None, move |_| { _ = RAN.fetch_add(1, Ordering::SeqCst); Some(40 + k) }, None, None);
                let t0 = Instant::now();
                while RAN.load(Ordering::SeqCst) == 0 && t0.elapsed().as_secs() < 5 { std::thread::yield_now(); }
                std::thread::sleep(std::time::Duration::from_millis(50));
                let r = if k == 0 { h.timeout_join(std::time::Duration::ZERO) } else { h.timeout_at_join(1) };
                res.push(matches!(r, Ok(Ok(Some(v))) if v == 40 + k));
            }
            println!("{{\"zero_duration_join_ok\": {}, \"expired_deadline_join_ok\": {}}}", res[0], res[1]);
            std::process::exit(0);
        }
        // pool_cancel: (1) a queued task is cancelled before it starts; its waiter then waits with a 300 ms timeout.
        // (2) a task that is suspended (delay) is cancelled; afterwards the pool's running size and the time stop() needs are printed.
        "pool_cancel" => {
            use open_coroutine_core::co_pool::CoroutinePool;
            use std::sync::atomic::{AtomicUsize, Ordering};
            static RAN: AtomicUsize = AtomicUsize::new(0);
            let mut pool = CoroutinePool::new(String::from("ocv-pool"), 128 * 1024, 0, 1, 0);
            let id = pool.submit_task(Some(String::from("ocv-cancelled")), |_| { _ = RAN.fetch_add(1, Ordering::SeqCst); Some(1) }, None, None).expect("submit");
            if args.get(2).map(String::as_str) == Some("two") {
                // two queued tasks (the first one is cancelled when <which> = 0, the second one when 1); after the
                // worker met both, a LATE waiter asks for the cancelled one and a waiter for the other one
                static RAN2: AtomicUsize = AtomicUsize::new(0);
                let id2 = pool.submit_task(Some(String::from("ocv-other")), |_| { _ = RAN2.fetch_add(1, Ordering::SeqCst); Some(2) }, None, None).expect("submit");
                let (cid, oid) = if num(3) == 0 { (id, id2) } else { (id2, id) };
                CoroutinePool::try_cancel_task(cid);
                pool.try_schedule_task().expect("schedule");
                let t1 = Instant::now();
                let late = pool.wait_task_result(cid, std::time::Duration::from_millis(300));
                let late_ms = t1.elapsed().as_millis();
                let other = pool.wait_task_result(oid, std::time::Duration::from_millis(300));
                let f = |r: &std::io::Result<Result<Option<usize>, &str>>| match r { Ok(Ok(_)) => "value", Ok(Err(_)) => "error", Err(_) => "timeout" };
                println!("{{\"which\": {}, \"first_ran\": {}, \"second_ran\": {}, \"late_waiter_of_cancelled\": \"{}\", \"late_waited_ms\": {late_ms}, \"waiter_of_other\": \"{}\"}}",
                    num(3), RAN.load(Ordering::SeqCst), RAN2.load(Ordering::SeqCst), f(&late), f(&other));
                std::process::exit(0);
            }
            CoroutinePool::try_cancel_task(id);
            if args.get(2).map(String::as_str) == Some("late") {
                // the pool is stopped first; a LATE waiter's wait times out; stop() is requested again; the waiter's next wait must
                // get the stop error
                let stop1 = pool.stop(std::time::Duration::from_millis(500)).is_ok();
                let id = 0x5eed_u64;
                let first = pool.wait_task_result(id, std::time::Duration::from_millis(10)).map(|_| ()).map_err(|_| ());
                let stop2 = pool.stop(std::time::Duration::from_millis(500)).is_ok();
                let t1 = Instant::now();
                let second = pool.wait_task_result(id, std::time::Duration::from_millis(300));
                let second_s = match second { Ok(Ok(_)) => "value", Ok(Err(_)) => "error", Err(_) => "timeout" };
                println!("{{\"first_stop_ok\": {stop1}, \"first_timed_out\": {}, \"stop_ok\": {stop2}, \"second_poll\": \"{second_s}\", \"second_waited_ms\": {}}}", first.is_err(), t1.elapsed().as_millis());
                std::process::exit(0);
            }
            if args.get(2).map(String::as_str) == Some("polls") {
                // a waiter polls (10 ms limit, times out), the pool is stopped, the waiter polls again: it must get the stop error
                // (an id nobody will ever complete, as in the harness: the waiter can only be answered by the stop)
                let id = 0x5eed_u64;
                let first = pool.wait_task_result(id, std::time::Duration::from_millis(10)).map(|_| ()).map_err(|_| ());
                let stop = pool.stop(std::time::Duration::from_millis(500));
                let t1 = Instant::now();
                let second = pool.wait_task_result(id, std::time::Duration::from_millis(300));
                let second_s = match second { Ok(Ok(_)) => "value", Ok(Err(_)) => "error", Err(_) => "timeout" };
                println!("{{\"first_timed_out\": {}, \"stop_ok\": {}, \"second_poll\": \"{second_s}\", \"second_waited_ms\": {}}}", first.is_err(), stop.is_ok(), t1.elapsed().as_millis());
                std::process::exit(0);
            }
            if args.get(2).map(String::as_str) == Some("again") {
                // the worker discards the cancelled task and goes on to a task that suspends itself for 100 ms; meanwhile the
                // discarded task is cancelled AGAIN: the suspended task must still finish
                static FINISHED: AtomicUsize = AtomicUsize::new(0);
                let _id2 = pool.submit_task(Some(String::from("ocv-victim")), |_| {
                    if let Some(s) = open_coroutine_core::scheduler::SchedulableSuspender::current() {
                        s.delay(std::time::Duration::from_millis(100));
                    }
                    _ = FINISHED.fetch_add(1, Ordering::SeqCst);
                    Some(2)
                }, None, None).expect("submit");
                pool.try_schedule_task().expect("schedule");
                CoroutinePool::try_cancel_task(id);
                std::thread::sleep(std::time::Duration::from_millis(150));
                pool.try_schedule_task().expect("schedule");
                pool.try_schedule_task().expect("schedule");
                println!("{{\"cancelled_ran\": {}, \"other_task_finished\": {}}}", RAN.load(Ordering::SeqCst), FINISHED.load(Ordering::SeqCst));
                std::process::exit(0);
            }
            if args.get(2).map(String::as_str) == Some("drop") {
                // what open_coroutine::JoinHandle::try_cancel(self) does next: the handle is dropped, its Drop calls clean_task_result
                pool.clean_task_result(id);
                pool.try_schedule_task().expect("schedule");
                println!("{{\"cancelled_then_handle_dropped\": {{\"ran\": {}}}}}", RAN.load(Ordering::SeqCst));
                std::process::exit(0);
            }
            eprintln!("pool_cancel: scheduling after cancel");
            pool.try_schedule_task().expect("schedule");
            eprintln!("pool_cancel: waiting for the cancelled task");
            let t0 = Instant::now();
            let r = pool.wait_task_result(id, std::time::Duration::from_millis(300));
            let waited = t0.elapsed().as_millis();
            let ran1 = RAN.load(Ordering::SeqCst);
            let wait_result = match r { Ok(Ok(_)) => "value", Ok(Err(_)) => "error", Err(_) => "timeout" };
            if args.get(2).map(String::as_str) == Some("1") {
                println!("{{\"cancelled_before_start\": {{\"ran\": {ran1}, \"waiter\": \"{wait_result}\", \"waited_ms\": {waited}}}}}");
                std::process::exit(0);
            }
            if args.get(2).map(String::as_str) == Some("stop") {
                // a waiter registration is left behind by the timed-out wait above: stop() has to settle it
                eprintln!("pool_cancel: stopping the pool with a waiter registration left");
                let t1 = Instant::now();
                let stop = pool.stop(std::time::Duration::from_millis(500));
                println!("{{\"stop_ok\": {}, \"stop_ms\": {}}}", stop.is_ok(), t1.elapsed().as_millis());
                std::process::exit(0);
            }
            // (2)
            let id2 = pool.submit_task(Some(String::from("ocv-suspended")), |_| {
                if let Some(s) = open_coroutine_core::scheduler::SchedulableSuspender::current() {
                    s.delay(std::time::Duration::from_millis(100));
                }
                Some(2)
            }, None, None).expect("submit");
            eprintln!("pool_cancel: part 2, first schedule");
            pool.try_schedule_task().expect("schedule");
            eprintln!("pool_cancel: part 2, scheduled");
            let running_while_suspended = pool.get_running_size();
            CoroutinePool::try_cancel_task(id2);
            std::thread::sleep(std::time::Duration::from_millis(150));
            pool.try_schedule_task().expect("schedule");
            pool.try_schedule_task().expect("schedule");
            let running_after_cancel = pool.get_running_size();
            let t1 = Instant::now();
            let stop = pool.stop(std::time::Duration::from_millis(1500));
            let stop_ms = t1.elapsed().as_millis();
            println!("{{\"cancelled_before_start\": {{\"ran\": {ran1}, \"waiter\": \"{wait_result}\", \"waited_ms\": {waited}}}, \"cancelled_while_suspended\": {{\"running_while_suspended\": {running_while_suspended}, \"running_after_cancel\": {running_after_cancel}, \"stop_ok\": {}, \"stop_ms\": {stop_ms}}}}}", stop.is_ok());
            std::process::exit(0);
        }
        // co_leak <delay|cancel> <ts>: coroutine A yields with a delay / cancel request made while it is in a system-call state;
        // then coroutine B, on the same thread, does a plain suspend. Prints what B's resume reports.
        "co_leak" => {
            use open_coroutine_core::common::constants::{CoroutineState, SyscallName, SyscallState};
            use open_coroutine_core::coroutine::suspender::Suspender;
            use open_coroutine_core::coroutine::Coroutine;
            type Co = Coroutine<'static, (), (), Option<usize>>;
            let cancel = args[2] == "cancel";
            let parked = args[2] == "parked"; // cancelled while parked in Syscall(.., Suspend(ts))
            let ts = num(3) as u64;
            let mut a: Co = Coroutine::new(Some(String::from("ocv-a")), move |s: &Suspender<(), ()>, ()| {
                let co = Co::current().expect("current");
                co.syscall((), SyscallName::nanosleep, SyscallState::Executing).expect("syscall");
                if cancel {
                    s.cancel();
                } else if parked {
                    co.syscall((), SyscallName::nanosleep, SyscallState::Suspend(ts)).expect("syscall suspend");
                    s.cancel();
                } else {
                    co.syscall((), SyscallName::nanosleep, SyscallState::Suspend(ts)).expect("syscall suspend");
                    s.until(ts);
                }
                None
            }, None, None).expect("create a");
            let mut b: Co = Coroutine::new(Some(String::from("ocv-b")), |s: &Suspender<(), ()>, ()| { s.suspend(); None }, None, None).expect("create b");
            let ra = a.resume().expect("resume a");
            let rb = b.resume().expect("resume b");
            let ok = rb == CoroutineState::Suspend((), 0);
            println!("{{\"a_reports\": \"{ra:?}\", \"b_reports\": \"{rb:?}\", \"b_plain_suspend_reported_correctly\": {ok}}}");
            std::mem::forget(a);
            std::mem::forget(b);
            std::process::exit(0);
        }
        // beans_seq: sequential lookups of one name, an init_bean for the same name, and a lookup again
        "beans_seq" => {
            use open_coroutine_core::common::beans::BeanFactory;
            #[derive(Default)]
            struct Bean(#[allow(dead_code)] u64);
            let a = std::ptr::from_ref(BeanFactory::get_or_default::<Bean>("ocv-seq")) as usize;
            let b = std::ptr::from_ref(BeanFactory::get_or_default::<Bean>("ocv-seq")) as usize;
            BeanFactory::init_bean("ocv-seq", Bean(7));
            let c = BeanFactory::get_bean::<Bean>("ocv-seq").map_or(0, |x| std::ptr::from_ref(x) as usize);
            println!("{{\"second_lookup_same\": {}, \"after_init_bean_same\": {}}}", a == b, a == c);
        }
        // beans_names <len> <pos>: two names of <len> bytes that differ only at byte <pos>
        "beans_names" => {
            use open_coroutine_core::common::beans::BeanFactory;
            #[derive(Default)]
            struct Bean(#[allow(dead_code)] u64);
            let (len, pos) = (num(2) as usize, num(3) as usize);
            let n1: String = "a".repeat(len);
            let mut n2 = n1.clone().into_bytes();
            n2[pos] = b'b';
            let n2 = String::from_utf8(n2).unwrap();
            let a = std::ptr::from_ref(BeanFactory::get_or_default::<Bean>(&n1)) as usize;
            let b = std::ptr::from_ref(BeanFactory::get_or_default::<Bean>(&n2)) as usize;
            let a2 = BeanFactory::get_bean::<Bean>(&n1).map_or(0, |x| std::ptr::from_ref(x) as usize);
            let b2 = BeanFactory::get_bean::<Bean>(&n2).map_or(0, |x| std::ptr::from_ref(x) as usize);
            println!("{{\"different_instances\": {}, \"stable\": {}}}", a != b, a == a2 && b == b2);
        }
        // local_drop <n>: store n values with a counting destructor in a coroutine-local, drop the local
        "local_drop" => {
            use std::sync::atomic::{AtomicUsize, Ordering};
            static DROPS: AtomicUsize = AtomicUsize::new(0);
            struct V(#[allow(dead_code)] u8);
            impl Drop for V {
                fn drop(&mut self) {
                    _ = DROPS.fetch_add(1, Ordering::SeqCst);
                }
            }
            let n = num(2) as usize;
            let keys = ["a", "b", "c", "d"];
            let local = open_coroutine_core::coroutine::local::CoroutineLocal::default();
            for k in keys.iter().take(n) {
                assert!(local.put(k, V(1)).is_none());
            }
            drop(local);
            println!("{{\"stored\": {n}, \"dropped\": {}}}", DROPS.load(Ordering::SeqCst));
        }
        // local_zst: zero-sized values with a destructor: one is overwritten (handed back), one removed, one left to the storage's Drop
        "local_zst" => {
            use std::sync::atomic::{AtomicUsize, Ordering};
            static DROPS: AtomicUsize = AtomicUsize::new(0);
            struct Z;
            impl Drop for Z {
                fn drop(&mut self) {
                    _ = DROPS.fetch_add(1, Ordering::SeqCst);
                }
            }
            let local = open_coroutine_core::coroutine::local::CoroutineLocal::default();
            assert!(local.put("a", Z).is_none());
            let prev = local.put("a", Z);
            let handed_back = prev.is_some();
            drop(prev);
            assert!(local.put("b", Z).is_none());
            let removed = local.remove::<Z>("b").is_some();
            let before = DROPS.load(Ordering::SeqCst);
            drop(local);
            println!("{{\"created\": 3, \"overwritten_handed_back\": {handed_back}, \"removed_handed_back\": {removed}, \"dropped_before_storage_drop\": {before}, \"dropped_total\": {}}}", DROPS.load(Ordering::SeqCst));
        }
        // cond_far <tv_sec> <tv_nsec>: hooked pthread_cond_timedwait on a plain thread with a far-future deadline; the native
        // call (fn_ptr) reports "signalled" at once. Prints the result and how often the native call was reached.
        "cond_far" => {
            use std::sync::atomic::{AtomicUsize, Ordering};
            static CALLS: AtomicUsize = AtomicUsize::new(0);
            extern "C" fn signalled(_c: *mut libc::pthread_cond_t, _m: *mut libc::pthread_mutex_t, _t: *const libc::timespec) -> c_int {
                _ = CALLS.fetch_add(1, Ordering::SeqCst);
                0
            }
            init_event_loops();
            let f: extern "C" fn(*mut libc::pthread_cond_t, *mut libc::pthread_mutex_t, *const libc::timespec) -> c_int = signalled;
            let ts = libc::timespec { tv_sec: num(2), tv_nsec: num(3) };
            let r = syscall::pthread_cond_timedwait(Some(&f), std::ptr::null_mut(), std::ptr::null_mut(), &raw const ts);
            println!("{{\"tv_sec\": {}, \"ret\": {r}, \"native_calls\": {}}}", num(2), CALLS.load(Ordering::SeqCst));
            std::process::exit(0);
        }
        _ => {
            eprintln!("unknown case {case}");
            std::process::exit(64);
        }
    }
}
