// Environment module injected into the scratch copy of core/src/lib.rs (DESIGN §2.3, E1-E5).
// It replaces *environment* that Kani 0.68 cannot compile or model; never property logic.
#[allow(missing_docs, dead_code, unreachable_pub, missing_debug_implementations, clippy::all, clippy::pedantic)]
pub mod verif_env {
    /// E1: one thread of control, so a thread-local is a plain static.
    pub struct Tls<T>(T);
    unsafe impl<T> Sync for Tls<T> {}
    #[derive(Debug)]
    pub struct AccessError;
    impl<T> Tls<T> {
        pub const fn new(v: T) -> Self {
            Tls(v)
        }
        pub fn with<R>(&'static self, f: impl FnOnce(&T) -> R) -> R {
            f(&self.0)
        }
        pub fn try_with<R>(&'static self, f: impl FnOnce(&T) -> R) -> Result<R, AccessError> {
            Ok(f(&self.0))
        }
    }

    /// E2: `std::thread::current()` (only used for names in messages and default names).
    #[derive(Debug, Copy, Clone)]
    pub struct VThread;
    #[derive(Debug, Copy, Clone, PartialEq, Eq)]
    pub struct VThreadId(pub u64);
    impl VThread {
        pub fn name(&self) -> Option<&'static str> {
            Some("verif-thread")
        }
        pub fn id(&self) -> VThreadId {
            VThreadId(1)
        }
    }
    pub fn thread_current() -> VThread {
        VThread
    }

    /// E4: no unwinding under Kani - run the closure; a panic inside is a verification failure.
    pub fn catch_unwind<F: FnOnce() -> R, R>(
        f: std::panic::AssertUnwindSafe<F>,
    ) -> Result<R, Box<dyn std::any::Any + Send + 'static>> {
        Ok((f.0)())
    }

    /// Canary for a Kani 0.68 code-generation issue: a constant allocation (e.g. the zero capacity read by
    /// `Vec::new()`) is resolved to an already generated static with identical initial bytes, so a write
    /// to that static changes the "constant". Harnesses call this at their end; a failure means the run
    /// was affected and its verdict must not be trusted.
    pub fn canary() {
        let a: Vec<u64> = Vec::new();
        let b: Vec<u8> = Vec::new();
        let c = String::new();
        let d: Vec<(usize, usize)> = Vec::new();
        assert!(
            a.capacity() == 0 && b.capacity() == 0 && c.capacity() == 0 && d.capacity() == 0,
            "verif canary: a constant allocation is aliased with a mutable static"
        );
    }

    /// E7: the tail of `Suspender::cancel` after the (non-returning) stack switch.
    pub fn after_cancel_switch() {}

    /// E5: atomics whose every operation is a scheduling point (sequentially consistent).
    pub mod atomic {
        pub use std::sync::atomic::Ordering;
        use std::cell::Cell;
        pub const SITE: u32 = 5;
        macro_rules! vatomic {
            ($name:ident, $t:ty) => {
                /// The tag byte keeps the initial bytes of a zero-initialised static of this type different
                /// from any all-zero constant allocation (see `canary`).
                #[derive(Debug)]
                pub struct $name(Cell<$t>, u8);
                unsafe impl Sync for $name {}
                impl Default for $name {
                    fn default() -> Self {
                        Self::new(Default::default())
                    }
                }
                impl $name {
                    pub const fn new(v: $t) -> Self {
                        Self(Cell::new(v), 0xA5)
                    }
                    pub fn load(&self, _: Ordering) -> $t {
                        verif_rt::yield_point(SITE);
                        self.0.get()
                    }
                    pub fn store(&self, v: $t, _: Ordering) {
                        verif_rt::yield_point(SITE);
                        self.0.set(v)
                    }
                    pub fn swap(&self, v: $t, _: Ordering) -> $t {
                        verif_rt::yield_point(SITE);
                        self.0.replace(v)
                    }
                    pub fn compare_exchange(
                        &self,
                        cur: $t,
                        new: $t,
                        _: Ordering,
                        _: Ordering,
                    ) -> Result<$t, $t> {
                        verif_rt::yield_point(SITE);
                        let v = self.0.get();
                        if v == cur {
                            self.0.set(new);
                            Ok(v)
                        } else {
                            Err(v)
                        }
                    }
                    /// Model-only: read without a scheduling point.
                    pub fn verif_get(&self) -> $t {
                        self.0.get()
                    }
                    /// Model-only: write without a scheduling point.
                    pub fn verif_set(&self, v: $t) {
                        self.0.set(v)
                    }
                }
            };
        }
        macro_rules! vatomic_int {
            ($name:ident, $t:ty) => {
                vatomic!($name, $t);
                impl $name {
                    pub fn fetch_add(&self, d: $t, _: Ordering) -> $t {
                        verif_rt::yield_point(SITE);
                        let v = self.0.get();
                        self.0.set(v.wrapping_add(d));
                        v
                    }
                    pub fn fetch_sub(&self, d: $t, _: Ordering) -> $t {
                        verif_rt::yield_point(SITE);
                        let v = self.0.get();
                        self.0.set(v.wrapping_sub(d));
                        v
                    }
                    pub fn fetch_update<F: FnMut($t) -> Option<$t>>(
                        &self,
                        _: Ordering,
                        _: Ordering,
                        mut f: F,
                    ) -> Result<$t, $t> {
                        verif_rt::yield_point(SITE);
                        let v = self.0.get();
                        match f(v) {
                            Some(n) => {
                                self.0.set(n);
                                Ok(v)
                            }
                            None => Err(v),
                        }
                    }
                }
            };
        }
        vatomic_int!(AtomicUsize, usize);
        vatomic_int!(AtomicU32, u32);
        vatomic_int!(AtomicU64, u64);
        vatomic!(AtomicBool, bool);
    }
}

/// E1: `thread_local!` replacement (plain statics, see `verif_env::Tls`).
#[macro_export]
macro_rules! verif_thread_local {
    () => {};
    ($(#[$a:meta])* $v:vis static $n:ident : $t:ty = const { $e:expr }; $($rest:tt)*) => {
        $(#[$a])* $v static $n: $crate::verif_env::Tls<$t> = $crate::verif_env::Tls::new($e);
        $crate::verif_thread_local!($($rest)*);
    };
    ($(#[$a:meta])* $v:vis static $n:ident : $t:ty = const { $e:expr }) => {
        $(#[$a])* $v static $n: $crate::verif_env::Tls<$t> = $crate::verif_env::Tls::new($e);
    };
    ($(#[$a:meta])* $v:vis static $n:ident : $t:ty = $e:expr; $($rest:tt)*) => {
        $(#[$a])* $v static $n: $crate::verif_env::Tls<$t> = $crate::verif_env::Tls::new($e);
        $crate::verif_thread_local!($($rest)*);
    };
}
