// Environment module injected into the scratch copy of core/src/lib.rs (DESIGN §2.3, E1-E5).
// It replaces *environment* that Kani 0.68 cannot compile or model; never property logic.
#[allow(missing_docs, dead_code, unreachable_pub, missing_debug_implementations, clippy::all, clippy::pedantic)]
pub mod verif_env {
    /// E1: one thread of control, so a thread-local is a plain static.
    /// The trailing tag keeps the static's initial bytes different from the constant `T` it is built from: Kani 0.68
    /// resolves a constant allocation to an already generated static with identical initial bytes, so a thread-local
    /// `VecDeque::new()` aliased every other `VecDeque::new()` constant of the crate and a push onto the thread-local
    /// corrupted them (propositional reduction ran out of memory on a 9 k-step program).
    pub struct Tls<T>(T, u64);
    unsafe impl<T> Sync for Tls<T> {}
    #[derive(Debug)]
    pub struct AccessError;
    impl<T> Tls<T> {
        pub const fn new(v: T) -> Self {
            Tls(v, 0x7e57_7e57_a5a5_5a5a)
        }
        pub fn with<R>(&'static self, f: impl FnOnce(&T) -> R) -> R {
            f(&self.0)
        }
        pub fn try_with<R>(&'static self, f: impl FnOnce(&T) -> R) -> Result<R, AccessError> {
            Ok(f(&self.0))
        }
    }

    /// E9: `crossbeam_utils::atomic::AtomicCell<T>` is used by the repository only as a holder whose raw pointer is taken
    /// (`as_ptr`): thread-local stacks and the poller's `Poll`. The real type stores `UnsafeCell<MaybeUninit<T>>`; writing a
    /// symbolic value through that union-like layout makes CBMC's propositional reduction run out of memory (a single
    /// `push_front(any())` on the TIMESTAMP stack: > 16 GB for a 9 k-step program; the same push through a plain UnsafeCell:
    /// 14 k variables). Same API subset, plain UnsafeCell.
    #[derive(Debug, Default)]
    pub struct VCell<T>(std::cell::UnsafeCell<T>);
    unsafe impl<T> Sync for VCell<T> {}
    unsafe impl<T> Send for VCell<T> {}
    impl<T> VCell<T> {
        pub const fn new(v: T) -> Self {
            VCell(std::cell::UnsafeCell::new(v))
        }
        pub const fn as_ptr(&self) -> *mut T {
            self.0.get()
        }
    }

    /// E11: function-local `static X: AtomicUsize = AtomicUsize::new(0)` caches of the repository (page size, red zone, bean
    /// factory address). Their initial bytes are 8 zero bytes - exactly those of RawVec's ZERO_CAP constant - and Kani 0.68
    /// resolves that constant to such a static: once the cache is filled, every `Vec::new()` of the program reports the cached
    /// value as its capacity. Same atomic, one more (non-zero) field.
    #[derive(Debug)]
    pub struct TaggedAtomicUsize(std::sync::atomic::AtomicUsize, u64);
    impl TaggedAtomicUsize {
        pub const fn new(v: usize) -> Self {
            TaggedAtomicUsize(std::sync::atomic::AtomicUsize::new(v), 0x7a66_ed00_a5a5_0001)
        }
    }
    impl std::ops::Deref for TaggedAtomicUsize {
        type Target = std::sync::atomic::AtomicUsize;
        fn deref(&self) -> &Self::Target {
            &self.0
        }
    }

    /// E2: `std::thread::current()` (only used for names in messages and default names).
    #[derive(Debug, Copy, Clone)]
    pub struct VThread;
    #[derive(Debug, Copy, Clone, PartialEq, Eq)]
    pub struct VThreadId(pub u64);
    impl VThread {
        pub fn name(&self) -> Option<&'static str> {
            Some("verif-thread")
        }
        pub fn id(&self) -> VThreadId {
            VThreadId(1)
        }
    }
    pub fn thread_current() -> VThread {
        VThread
    }

    /// E4: no unwinding under Kani - run the closure; a panic inside is a verification failure.
    pub fn catch_unwind<F: FnOnce() -> R, R>(
        f: std::panic::AssertUnwindSafe<F>,
    ) -> Result<R, Box<dyn std::any::Any + Send + 'static>> {
        Ok((f.0)())
    }

    /// Canary for a Kani 0.68 code-generation issue: a constant allocation (e.g. the zero capacity read by
    /// `Vec::new()`) is resolved to an already generated static with identical initial bytes, so a write
    /// to that static changes the "constant". Harnesses call this at their end; a failure means the run
    /// was affected and its verdict must not be trusted.
    pub fn canary() {
        let a: Vec<u64> = Vec::new();
        let b: Vec<u8> = Vec::new();
        let c = String::new();
        let d: Vec<(usize, usize)> = Vec::new();
        assert!(
            a.capacity() == 0 && b.capacity() == 0 && c.capacity() == 0 && d.capacity() == 0,
            "verif canary: a constant allocation is aliased with a mutable static"
        );
    }

    /// E7: the tail of `Suspender::cancel` after the (non-returning) stack switch.
    pub fn after_cancel_switch() {}

    /// E5: atomics whose every operation is a scheduling point (sequentially consistent).
    pub mod atomic {
        pub use std::sync::atomic::Ordering;
        use std::cell::Cell;
        pub const SITE: u32 = 5;
        macro_rules! vatomic {
            ($name:ident, $t:ty) => {
                /// The tag byte keeps the initial bytes of a zero-initialised static of this type different
                /// from any all-zero constant allocation (see `canary`).
                #[derive(Debug)]
                pub struct $name(Cell<$t>, u8);
                unsafe impl Sync for $name {}
                impl Default for $name {
                    fn default() -> Self {
                        Self::new(Default::default())
                    }
                }
                impl $name {
                    pub const fn new(v: $t) -> Self {
                        Self(Cell::new(v), 0xA5)
                    }
                    pub fn load(&self, _: Ordering) -> $t {
                        verif_rt::yield_point(SITE);
                        self.0.get()
                    }
                    pub fn store(&self, v: $t, _: Ordering) {
                        verif_rt::yield_point(SITE);
                        self.0.set(v)
                    }
                    pub fn swap(&self, v: $t, _: Ordering) -> $t {
                        verif_rt::yield_point(SITE);
                        self.0.replace(v)
                    }
                    pub fn compare_exchange(
                        &self,
                        cur: $t,
                        new: $t,
                        _: Ordering,
                        _: Ordering,
                    ) -> Result<$t, $t> {
                        verif_rt::yield_point(SITE);
                        let v = self.0.get();
                        if v == cur {
                            self.0.set(new);
                            Ok(v)
                        } else {
                            Err(v)
                        }
                    }
                    /// Model-only: read without a scheduling point.
                    pub fn verif_get(&self) -> $t {
                        self.0.get()
                    }
                    /// Model-only: write without a scheduling point.
                    pub fn verif_set(&self, v: $t) {
                        self.0.set(v)
                    }
                }
            };
        }
        macro_rules! vatomic_int {
            ($name:ident, $t:ty) => {
                vatomic!($name, $t);
                impl $name {
                    pub fn fetch_add(&self, d: $t, _: Ordering) -> $t {
                        verif_rt::yield_point(SITE);
                        let v = self.0.get();
                        self.0.set(v.wrapping_add(d));
                        v
                    }
                    pub fn fetch_sub(&self, d: $t, _: Ordering) -> $t {
                        verif_rt::yield_point(SITE);
                        let v = self.0.get();
                        self.0.set(v.wrapping_sub(d));
                        v
                    }
                    pub fn fetch_update<F: FnMut($t) -> Option<$t>>(
                        &self,
                        _: Ordering,
                        _: Ordering,
                        mut f: F,
                    ) -> Result<$t, $t> {
                        verif_rt::yield_point(SITE);
                        let v = self.0.get();
                        match f(v) {
                            Some(n) => {
                                self.0.set(n);
                                Ok(v)
                            }
                            None => Err(v),
                        }
                    }
                }
            };
        }
        vatomic_int!(AtomicUsize, usize);
        vatomic_int!(AtomicU32, u32);
        vatomic_int!(AtomicU64, u64);
        vatomic!(AtomicBool, bool);
    }
}

/// E5 (blocking primitives, only for the C02 harness group): `Mutex`/`Condvar` of a single thread of control that is
/// pre-empted at scheduling points. A `Condvar::wait_timeout_while` whose predicate says "keep waiting" is a BLOCK POINT: the
/// lock is released, every other (modelled) thread that is still pending runs to completion (the harness's block hook), the
/// predicate is evaluated again, and if it still says "keep waiting" the FULL timeout elapses (recorded - that is what a lost
/// wake-up looks like) and the call reports timed-out. Spurious wake-ups are not modelled.
#[allow(missing_docs, dead_code, unreachable_pub, missing_debug_implementations, clippy::all, clippy::pedantic)]
pub mod verif_sync {
    use std::cell::{Cell, UnsafeCell};
    use std::ops::{Deref, DerefMut};
    use std::time::Duration;

    #[derive(Debug)]
    pub struct Poisoned;
    impl std::fmt::Display for Poisoned {
        fn fmt(&self, f: &mut std::fmt::Formatter<'_>) -> std::fmt::Result {
            f.write_str("poisoned")
        }
    }

    pub struct Mutex<T> {
        v: UnsafeCell<T>,
        locked: Cell<bool>,
        tag: u8,
    }
    unsafe impl<T> Sync for Mutex<T> {}
    unsafe impl<T> Send for Mutex<T> {}
    impl<T: Default> Default for Mutex<T> {
        fn default() -> Self {
            Self::new(T::default())
        }
    }
    impl<T> std::fmt::Debug for Mutex<T> {
        fn fmt(&self, f: &mut std::fmt::Formatter<'_>) -> std::fmt::Result {
            f.write_str("Mutex")
        }
    }
    impl<T> Mutex<T> {
        pub const fn new(v: T) -> Self {
            Mutex { v: UnsafeCell::new(v), locked: Cell::new(false), tag: 0xA7 }
        }
        pub fn lock(&self) -> Result<MutexGuard<'_, T>, Poisoned> {
            verif_rt::yield_point(7);
            // a pre-empting thread runs to completion and releases what it locked, so the lock is free here
            assert!(!self.locked.get(), "verif_sync: lock taken while held (self-deadlock)");
            self.locked.set(true);
            Ok(MutexGuard { m: self })
        }
    }
    pub struct MutexGuard<'a, T> {
        m: &'a Mutex<T>,
    }
    impl<T> Drop for MutexGuard<'_, T> {
        fn drop(&mut self) {
            self.m.locked.set(false);
        }
    }
    impl<T> Deref for MutexGuard<'_, T> {
        type Target = T;
        fn deref(&self) -> &T {
            unsafe { &*self.m.v.get() }
        }
    }
    impl<T> DerefMut for MutexGuard<'_, T> {
        fn deref_mut(&mut self) -> &mut T {
            unsafe { &mut *self.m.v.get() }
        }
    }

    #[derive(Debug, Copy, Clone)]
    pub struct WaitTimeoutResult(bool);
    impl WaitTimeoutResult {
        pub fn timed_out(&self) -> bool {
            self.0
        }
    }

    /// Installed by the harness: runs every other thread that is still pending to completion.
    pub static mut BLOCK_HOOK: Option<fn()> = None;
    /// Number of waits that elapsed their FULL timeout, and the total time they waited (ns, saturating).
    pub static mut FULL_TIMEOUTS: u32 = 0x5c1;
    pub static mut WAITED_NS: u64 = 0x5c2;
    pub static mut NOTIFIES: u32 = 0x5c3;

    #[derive(Debug)]
    pub struct Condvar {
        tag: u8,
    }
    impl Default for Condvar {
        fn default() -> Self {
            Self::new()
        }
    }
    impl Condvar {
        pub const fn new() -> Self {
            Condvar { tag: 0xA9 }
        }
        pub fn notify_one(&self) {
            verif_rt::yield_point(8);
            unsafe { NOTIFIES += 1 };
        }
        pub fn notify_all(&self) {
            self.notify_one();
        }
        pub fn wait_timeout_while<'a, T, F: FnMut(&mut T) -> bool>(
            &self,
            mut guard: MutexGuard<'a, T>,
            dur: Duration,
            mut keep_waiting: F,
        ) -> Result<(MutexGuard<'a, T>, WaitTimeoutResult), Poisoned> {
            if !keep_waiting(&mut *guard) {
                return Ok((guard, WaitTimeoutResult(false)));
            }
            // block: release the lock, let the others run
            guard.m.locked.set(false);
            if let Some(h) = unsafe { BLOCK_HOOK } {
                h();
            }
            guard.m.locked.set(true);
            if !keep_waiting(&mut *guard) {
                return Ok((guard, WaitTimeoutResult(false)));
            }
            unsafe {
                FULL_TIMEOUTS += 1;
                WAITED_NS = WAITED_NS.saturating_add(dur.as_secs().saturating_mul(1_000_000_000).saturating_add(u64::from(dur.subsec_nanos())));
            }
            Ok((guard, WaitTimeoutResult(true)))
        }
    }
}

/// E1: `thread_local!` replacement (plain statics, see `verif_env::Tls`).
#[macro_export]
macro_rules! verif_thread_local {
    () => {};
    ($(#[$a:meta])* $v:vis static $n:ident : $t:ty = const { $e:expr }; $($rest:tt)*) => {
        $(#[$a])* $v static $n: $crate::verif_env::Tls<$t> = $crate::verif_env::Tls::new($e);
        $crate::verif_thread_local!($($rest)*);
    };
    ($(#[$a:meta])* $v:vis static $n:ident : $t:ty = const { $e:expr }) => {
        $(#[$a])* $v static $n: $crate::verif_env::Tls<$t> = $crate::verif_env::Tls::new($e);
    };
    ($(#[$a:meta])* $v:vis static $n:ident : $t:ty = $e:expr; $($rest:tt)*) => {
        $(#[$a])* $v static $n: $crate::verif_env::Tls<$t> = $crate::verif_env::Tls::new($e);
        $crate::verif_thread_local!($($rest)*);
    };
}
