"""Property -> harness groups. One group = one scratch tree + one cargo-kani invocation.

group keys: mounts [(harness file, core/src-relative mount target)], harnesses [names] (quick and
thorough), thorough_harnesses [names] (thorough only), tier ("quick" default / "thorough": whole group
only in thorough), atomics [files rewritten with yielding atomics, E5], subs [extra counted rewrites],
timeout / timeout_thorough (s per harness), jobs, mem_gb, kani_args, bounds (text).
"""

PROPS = {}

PROPS["C28"] = {
    "functions": ["common::get_timeout_time", "common::get_slices", "syscall::unix::get_time_limit"],
    "bounds": "get_timeout_time / get_time_limit: loop-free, every input (64-bit secs, 32-bit nanos, every clock "
              "reading; every non-negative timeval). get_slices: slice any non-zero Duration <= u64::MAX/8 s, "
              "total = q*slice + r with r < slice any and one solver query per q: quick tier q in 0..=2 at full width "
              "(up to 3 pieces); thorough tier adds q = 3, 4 with slice seconds < 2^16 (up to 5 pieces); plus an inductive "
              "progress step for every total > slice > 0 (both tiers).",
    "outside": "get_slices with more pieces than the unrolled q is covered only through the progress step (each iteration "
               "strictly decreases the remainder), not by an unrolled run; q = 3, 4 at full 64-bit width (the SAT query did not "
               "finish within the per-harness cap in round 1; 161-190 s even at 16-bit seconds); negative timeval fields "
               "(rejected by expect()).",
    "assumptions": ["common::now is replaced by a stub returning an arbitrary u64 (the clock is a symbolic variable)"],
    "groups": [
        {
            "mounts": [("c28_time.rs", "common/mod.rs"), ("c28_limit.rs", "syscall/unix/mod.rs")],
            "harnesses": ["c28_timeout_saturates", "c28_slices_q0", "c28_slices_q1", "c28_slices_q2", "c28_slices_runtime_slice",
                          "c28_slices_progress_step", "c28_time_limit_all_timeval"],
            "thorough_harnesses": ["c28_slices_q3_narrow", "c28_slices_q4_narrow"],
            "timeout_thorough": 3000,
            "timeout": 600,
            "bounds": "see property bounds",
        },
    ],
}

PROPS["C14"] = {
    "functions": ["syscall::sleep (SleepSyscallFacade -> NioSleepSyscall)", "syscall::usleep", "syscall::nanosleep",
                  "syscall::poll (NioPollSyscall loop)", "syscall::select (NioSelectSyscall loop)",
                  "syscall::pthread_cond_timedwait (NioPthreadCondTimedwaitSyscall loop)"],
    "bounds": "sleep/usleep/nanosleep: loop-free, every argument value. poll: 0 <= timeout <= 64 ms (unwind 12). "
              "select: tv_sec = 0, 0 <= tv_usec <= 64000, and negative fields in [-2,0]. pthread_cond_timedwait: "
              "clock < 4 s, deadline within 25 ms of now or in the past (unwind 6). Slack per wait eps in [0, 1 ms].",
    "outside": "timeouts beyond the bounds (the slice loops are uniform in the timeout; the unit conversion is scale free); "
               "the coroutine-caller branch of the facade; real scheduling slack; poll(INT_MAX) treated as infinite.",
    "assumptions": [
        "common::now is a stub over a virtual clock (time is a symbolic variable)",
        "EventLoops::wait_event(d) is replaced by its contract: returns after d + eps, eps arbitrary in [0, 1 ms]",
        "the raw libc function is a scripted kernel reporting 'nothing ready' (or ready at the k-th probe)",
    ],
    "groups": [
        {
            "mounts": [("c14_timed.rs", "syscall/unix/mod.rs")],
            "harnesses": ["c14_sleep_all_secs", "c14_usleep_all_micros", "c14_nanosleep_all_timespec",
                          "c14_poll_timeout_le_64ms", "c14_poll_ready_returns_result", "c14_select_timeout_unit", "c14_select_timeout_le_64ms",
                          "c14_select_invalid_timeval", "c14_cond_timedwait_deadline", "c14_cond_timedwait_far_deadline_is_in_the_future",
                          "c14_select_any_timeval_first_slices", "c14_poll_any_timeout_first_slices"],
            "timeout": 600,
        },
        {
            # the layer the hooked calls wait in: EventLoop::timed_wait_just over the mio model (time passes inside the OS poll)
            "mounts": [("c14_wait.rs", "net/event_loop.rs")], "cfgs": ["ocv_small"],
            # thorough tier only: 2 polls = 100 s symbolic execution + 965 s SAT (measured under load), 3 polls = 190 s + 1531 s
            "tier": "thorough",
            "harnesses": ["c14_timed_wait_just_not_early_2_polls", "c14_timed_wait_just_not_early"],
            "timeout_thorough": 3400, "mem_gb": 40, "jobs": 2,
        },
    ],
}

_IO_ASSUME = [
    "common::now is a stub over a virtual clock",
    "is_socket = true; is_blocking/set_blocking/set_non_blocking are a per-fd flag model that counts calls (fcntl not executed)",
    "recv_time_limit/send_time_limit return a symbolic limit in {unlimited, 15 ms} (the real cache is decided under C19)",
    "EventLoops::wait_read_event/wait_write_event are replaced by: the slice elapses, result Ok or Err (symbolic)",
    "the raw libc function is a scripted kernel: <= 3 symbolic responses from {n bytes, EOF, EAGAIN, EINTR, ECONNRESET}, then ECONNRESET",
]

PROPS["C16"] = {
    "functions": ["impl_nio_read_buf! as instantiated in syscall::read / recv / recvfrom (via Facade->Nio->Raw)",
                  "impl_nio_write_buf! as instantiated in syscall::write / send / sendto",
                  "impl_nio_read_iovec! (readv), impl_nio_write_iovec! (writev), NioRecvmsgSyscall, NioSendmsgSyscall",
                  "syscall::unix::{reset_errno,set_errno}"],
    "bounds": "single-buffer calls: <= 3 scripted kernel responses per call (then the peer resets), buffers of 1..=4 bytes (0 in the "
              "zero-length harnesses), unwind 7; vectored calls: 2 iovecs of 0..=2 bytes, 2 scripted responses (then reset), unwind 4; "
              "symbolic blocking flag, time limit in {none, 15 ms}, symbolic wait failure position.",
    "outside": "non-socket descriptors (bypass), the io_uring layer, the facade's coroutine branch, pread/pwrite (ESPIPE on sockets), "
               "longer scripts and larger buffers.",
    "assumptions": _IO_ASSUME,
    "groups": [
        {
            "mounts": [("c16_io.rs", "syscall/unix/mod.rs")],
            "harnesses": ["c16_read", "c16_recv", "c16_recvfrom", "c16_write", "c16_send", "c16_sendto",
                          "c16_zero_len_read", "c16_zero_len_recv", "c16_zero_len_write", "c16_zero_len_send"],
            "timeout": 600, "jobs": 6,
        },
        {
            "mounts": [("c16_io.rs", "syscall/unix/mod.rs")],
            "harnesses": ["c16_readv", "c16_writev", "c16_recvmsg", "c16_sendmsg"],
            # CBMC peaks at ~18 GB RSS on two of these: 2 at a time, 30 GB address-space cap each
            "timeout": 900, "jobs": 2, "mem_gb": 30,
        },
    ],
}

PROPS["C18"] = {
    "functions": ["impl_nio_read_buf!/impl_nio_write_buf! (read, recv, recvfrom, write, send, sendto): remember blocking flag, "
                  "force O_NONBLOCK, restore on every exit path; would-block handling"],
    "bounds": "as C16 (single-buffer: <= 3 scripted responses, buffers 0..=4 bytes; vectored mode-restore harnesses: 2 iovecs of 0..=2 bytes, "
              "2 responses; both blocking modes).",
    "outside": "that the hook applies process-wide (dynamic linking), real fcntl, the coroutine branch.",
    "assumptions": _IO_ASSUME,
    "groups": [
        {
            "mounts": [("c16_io.rs", "syscall/unix/mod.rs")],
            "harnesses": ["c18_mode_read", "c18_mode_recv", "c18_mode_recvfrom", "c18_mode_write", "c18_mode_send",
                          "c18_mode_sendto", "c18_nonblocking_read", "c18_nonblocking_send"],
            "timeout": 600,
        },
        {
            "mounts": [("c16_io.rs", "syscall/unix/mod.rs")],
            "harnesses": ["c18_mode_readv", "c18_mode_writev", "c18_mode_recvmsg", "c18_mode_sendmsg"],
            "timeout": 900, "jobs": 2, "mem_gb": 30,
        },
        {
            # connection-establishing hooks; E6: connect.rs' getpeername / getsockopt(SO_ERROR) FFI calls go to the scripted kernel
            "mounts": [("c16_io.rs", "syscall/unix/mod.rs"), ("c18_conn.rs", "syscall/unix/mod.rs")],
            "subs": [("syscall/unix/connect.rs", "libc::getpeername(", "crate::syscall::unix::verif_c18_conn::k_getpeername(", None),
                     ("syscall/unix/connect.rs", "libc::getsockopt(", "crate::syscall::unix::verif_c18_conn::k_getsockopt(", None)],
            "harnesses": ["c18_mode_connect", "c18_mode_accept", "c18_mode_accept4"],
            "timeout": 1800,
        },
    ],
}

PROPS["C17"] = {
    "functions": ["impl_nio_read_iovec! (readv)", "impl_nio_write_iovec! (writev)", "NioRecvmsgSyscall::recvmsg",
                  "NioSendmsgSyscall::sendmsg (rebuild of the iovec array from index/offset, msg_iovlen selection)"],
    "bounds": "2 caller iovecs of 0..=2 bytes each, 2 scripted kernel responses (then the peer resets), both blocking modes, time limit in "
              "{none, 15 ms}, symbolic wait failure; unwind 4. The scripted kernel reads exactly `count` elements of the array it is handed "
              "(an over-long count is an out-of-bounds read CBMC reports) and maps every non-empty element to its logical position in the "
              "caller's request: inside one caller buffer, at or after the first byte not yet transferred, in increasing order without overlap.",
    "outside": "more / larger iovecs (in particular two partial transfers inside one iovec of >= 3 bytes, exercised natively only), "
               "preadv/pwritev (ESPIPE on sockets), ancillary data.",
    "assumptions": _IO_ASSUME,
    "groups": [
        {
            "mounts": [("c16_io.rs", "syscall/unix/mod.rs")],
            "harnesses": ["c17_readv", "c17_writev", "c17_recvmsg", "c17_sendmsg"],
            "timeout": 900, "jobs": 2, "mem_gb": 30,
        },
    ],
}

PROPS["C17"]["groups"].append({
    "mounts": [("c16_io.rs", "syscall/unix/mod.rs")], "cfgs": ["ocv_nv3"],
    # 2 of the 4 entry points in the quick tier (one macro-generated, one hand-written hook); each is ~200 s of symbolic execution
    "harnesses": ["c17_writev_3iov", "c17_recvmsg_3iov"],
    "thorough_harnesses": ["c17_readv_3iov", "c17_sendmsg_3iov"],
    "timeout": 2400, "timeout_thorough": 3400, "jobs": 1, "mem_gb": 30,
    "bounds": "3 caller iovecs of 0..=2 bytes, 2 scripted responses, blocking descriptor, no time limit, waits succeed; unwind 5",
})
PROPS["C16"]["groups"].append({
    "mounts": [("c16_io.rs", "syscall/unix/mod.rs")], "cfgs": ["ocv_nv3"],
    "harnesses": ["c16_writev_3iov", "c16_sendmsg_3iov"],
    "thorough_harnesses": ["c16_readv_3iov", "c16_recvmsg_3iov"],
    "timeout": 2400, "timeout_thorough": 3400, "jobs": 1, "mem_gb": 30,
    "bounds": "3 caller iovecs of 0..=2 bytes, 2 scripted responses, blocking descriptor, no time limit, waits succeed; unwind 5",
})

PROPS["C19"] = {
    "functions": ["syscall::setsockopt (SetsockoptSyscallFacade -> NioSetsockoptSyscall -> Raw)", "syscall::unix::recv_time_limit",
                  "syscall::unix::send_time_limit", "syscall::unix::get_time_limit", "syscall::close (CloseSyscallFacade -> NioCloseSyscall -> Raw)"],
    "bounds": "ONE operation from {set SO_RCVTIMEO, set SO_SNDTIMEO, query receive limit, query send limit, close + reuse of the number, a close "
              "that the kernel reports as -1/EINTR although it released the descriptor + reuse} "
              "from an ARBITRARY valid state of the limit cache over 2 descriptor numbers (inductive step: histories of any length): "
              "the socket's four option values are arbitrary valid timevals (any tv_sec >= 0, 0 <= tv_usec < 10^6), each of the four cache "
              "entries is independently absent or coherent, the timeval passed to setsockopt is ANY pair of 64-bit fields (negative and "
              "out-of-range included; the kernel model answers like Linux: EDOM for tv_usec outside [0,10^6), negative tv_sec stored as 0). "
              "The timeval->limit conversion is an uninterpreted function in the step harnesses and is decided separately for every "
              "non-negative timeval against a 128-bit reference (c19_conversion_all_timeval). Thorough tier adds concrete histories of 2 and 3 "
              "operations with |tv_sec| < 2^20.",
    "outside": "more than 2 descriptor numbers (the cache is keyed by number, entries do not interact); getsockopt failures; concurrent callers "
               "(the lazy fill's assert!(insert(..).is_none()) can only fail under a race between two first uses); the Windows implementation.",
    "assumptions": [
        "E6: the two libc::getsockopt FFI calls in send_time_limit/recv_time_limit are redirected to a kernel-option model (per descriptor SO_RCVTIMEO/SO_SNDTIMEO)",
        "the raw setsockopt/close passed as fn_ptr update that model like Linux's sock_set_timeout; closing a number resets its options (reuse by a new socket)",
        "EventLoops::del_event is stubbed to Ok (interest bookkeeping is decided under C21)",
        "get_time_limit is stubbed by a memoised arbitrary function (zero timeval <-> u64::MAX) in the c19_step_* harnesses only",
    ],
    "groups": [
        {
            "mounts": [("c19_sockopt.rs", "syscall/unix/mod.rs")],
            # E6: the two libc::getsockopt FFI calls of send_time_limit/recv_time_limit go to the kernel-option model
            "subs": [("syscall/unix/mod.rs", "libc::getsockopt(", "verif_c19_sockopt::k_getsockopt(", None)],
            "harnesses": ["c19_step_set_rcvtimeo", "c19_step_set_sndtimeo", "c19_step_query_recv_limit",
                          "c19_step_query_send_limit", "c19_step_close_and_reuse", "c19_step_close_interrupted_and_reuse", "c19_conversion_all_timeval"],
            "thorough_harnesses": ["c19_history_2", "c19_history_3"],
            "timeout": 1200, "timeout_thorough": 3000, "jobs": 6,
        },
    ],
}

_SEL_ASSUME = [
    "mio is replaced by the model crate: per Poll a table fd -> (token, interest) with epoll's EEXIST/ENOENT contract; "
    "poll() delivers one event per ready fd carrying the registered token (level-style delivery, readiness marks set by the harness)",
    "dashmap/once_cell model crates back the process-wide record sets",
]
PROPS["C20"] = {
    "functions": ["net::selector::mio_adapter::Poller::{do_register,do_reregister,do_select}", "<mio::event::Event as selector::Event>::get_token",
                  "Selector::{add_read_event,add_write_event,select,register}"],
    "bounds": "loop-free integer code: every u64 token / coroutine id, every non-negative descriptor number; 2 coroutine ids, 2 descriptors; a reader and a "
              "writer (distinct symbolic tokens) on one descriptor in either registration order, one of the two interests dropped, then readiness for the other.",
    "outside": "EventLoop::resume -> Scheduler::try_resume (the lookup by the decoded token is a set removal keyed by the same value); "
               "readiness timing on a real epoll; io_uring/IOCP tokens.",
    "assumptions": _SEL_ASSUME,
    "groups": [
        {
            "mounts": [("c20_selector.rs", "net/selector/mod.rs")],
            "harnesses": ["c20_token_roundtrip_read", "c20_token_roundtrip_write", "c20_readiness_wakes_only_the_waiter", "c20_remaining_waiter_keeps_its_token"],
            "timeout": 600,
        },
    ],
}
PROPS["C21"] = {
    "functions": ["Selector::{add_read_event,add_write_event,del_event,del_read_event,del_write_event,select,register,reregister,deregister}",
                  "mio_adapter::Poller::{do_register,do_reregister,do_deregister}"],
    "bounds": "ONE operation from {wait read, wait write, drop both, drop read, drop write, close+reuse, hooked close, readiness event delivered} on a "
              "descriptor whose outstanding interests are concrete per harness (none/read/write/both: 32 instances) while the waiting-token records, "
              "all tokens and a bystander descriptor's whole state are arbitrary (inductive step: histories of any length); a wait whose OS "
              "registration is refused (from none and from the opposite interest); a re-wait after a consumed event; two pollers sharing the "
              "record sets; thorough: every history of 3 / 4 operations over 2 descriptor numbers.",
    "outside": "the real epoll (edge-trigger re-arm), an OS refusal of reregister/deregister in the middle of a drop, shutdown() (same del_* calls).",
    "assumptions": _SEL_ASSUME,
    "groups": [
        {
            "mounts": [("c20_selector.rs", "net/selector/mod.rs")], "cfgs": ["ocv_small"],
            "harnesses": ['c21_step_close_and_reuse_from_both', 'c21_step_close_and_reuse_from_none', 'c21_step_close_and_reuse_from_read', 'c21_step_close_and_reuse_from_write', 'c21_step_del_both_from_both', 'c21_step_del_both_from_none', 'c21_step_del_both_from_read', 'c21_step_del_both_from_write', 'c21_step_del_read_from_both', 'c21_step_del_read_from_none', 'c21_step_del_read_from_read', 'c21_step_del_read_from_write', 'c21_step_del_write_from_both', 'c21_step_del_write_from_none', 'c21_step_del_write_from_read', 'c21_step_del_write_from_write', 'c21_step_event_delivered_from_both', 'c21_step_wait_read_refused_by_the_os_from_none', 'c21_step_wait_write_refused_by_the_os_from_none', 'c21_step_wait_read_refused_by_the_os_from_write', 'c21_step_wait_write_refused_by_the_os_from_read', 'c21_step_event_delivered_from_none', 'c21_step_event_delivered_from_read', 'c21_step_event_delivered_from_write', 'c21_step_hooked_close_from_both', 'c21_step_hooked_close_from_none', 'c21_step_hooked_close_from_read', 'c21_step_hooked_close_from_write', 'c21_step_wait_read_from_both', 'c21_step_wait_read_from_none', 'c21_step_wait_read_from_read', 'c21_step_wait_read_from_write', 'c21_step_wait_write_from_both', 'c21_step_wait_write_from_none', 'c21_step_wait_write_from_read', 'c21_step_wait_write_from_write'],
            "timeout": 900, "jobs": 8,
            "bounds": "one operation on descriptor 0 from each of its 4 interest states (concrete), everything else symbolic; model containers of 2 entries; unwind 3",
        },
        {
            "mounts": [("c20_selector.rs", "net/selector/mod.rs")],
            "harnesses": ["c21_rewait_after_event", "c21_two_event_loops"],
            "thorough_harnesses": ["c21_interest_history_3", "c21_interest_history_4"],
            "timeout": 900, "timeout_thorough": 3000,
        },
    ],
}
PROPS["C25"] = {
    "functions": ["coroutine::local::CoroutineLocal::{put,get,get_mut,remove}", "drop of CoroutineLocal"],
    "bounds": "every history of 3 (quick) / 4 (thorough) operations from {put, get, get_mut+write, remove} over 2 keys x 2 coroutine-locals "
              "with symbolic u8 payloads; value type with a counting destructor; release-on-drop after every 2-operation history.",
    "outside": "more keys/locals, concurrent access, keys that differ only beyond the first byte.",
    "assumptions": ["dashmap is replaced by the model crate (linear map, capacity 4)"],
    "groups": [
        {
            "mounts": [("c25_local.rs", "coroutine/local.rs")],
            "harnesses": ["c25_map_history_3", "c25_release_on_drop", "c25_zero_sized_values_are_released_too"],
            "thorough_harnesses": ["c25_map_history_4"],
            "timeout": 600, "timeout_thorough": 3000,
        },
    ],
}
PROPS["C26"] = {
    "functions": ["common::beans::BeanFactory::{get_instance,get_or_default,get_mut_or_default,init_bean,get_bean}"],
    "bounds": "2 threads, each one first lookup of the same name (both through get_or_default, or both through get_mut_or_default); thread B's whole lookup is placed at one symbolic scheduling point "
              "inside thread A's lookup (every dashmap operation and every atomic operation is a scheduling point) or after it; SeqCst.",
    "outside": "non-nested interleavings (B pre-empted in turn), 3+ threads, weak-memory effects, init_bean racing with a lookup of the same name "
               "(init_bean does not hand out an instance; the runtime only calls it with per-event-loop names).",
    "assumptions": ["E5: std atomics in beans.rs replaced by yielding Cell-backed atomics", "dashmap model; one pre-emption (DESIGN 2.7)"],
    "groups": [
        {
            "mounts": [("c26_beans.rs", "common/beans.rs")],
            "atomics": ["common/beans.rs"],
            "harnesses": ["c26_first_lookups_preempt_at_0", "c26_first_lookups_preempt_at_1", "c26_first_lookups_preempt_at_2",
                          "c26_first_lookups_preempt_at_3", "c26_first_lookups_preempt_at_4", "c26_first_lookups_preempt_at_5",
                          "c26_first_lookups_preempt_at_6", "c26_first_lookups_preempt_at_7", "c26_first_lookups_one_after_the_other",
                          "c26_sequential_lookups", "c26_names_that_differ_give_different_instances"]
                         + [f"c26_first_mut_lookups_preempt_at_{k}" for k in range(8)] + ["c26_first_mut_lookups_one_after_the_other"],
            "timeout": 600,
        },
    ],
}
PROPS["C06"] = {
    "functions": ["work_steal::LocalQueue::{tick,pop,push}", "work_steal::WorkStealQueue::{push,pop}"],
    "bounds": "tick: every u32 start value, 61 consecutive calls (unwind 63). shared-first step: every tick value whose successor is a multiple "
              "of 61 (and the wrap), 1 local queue of capacity 2.",
    "outside": "see DESIGN",
    "assumptions": ["st3 / crossbeam-deque / rand model crates"],
    "groups": [
        {
            "mounts": [("c06_ws.rs", "common/work_steal.rs")],
            "harnesses": ["c06_ws_tick_window", "c06_ws_shared_first_on_tick"],
            "timeout": 600,
        },
    ],
}

_C02_SUBS = [
    ("co_pool/mod.rs", "use std::sync::{Arc, Condvar, Mutex};", "use std::sync::Arc;\nuse crate::verif_sync::{Condvar, Mutex};", 1),
    ("common/mod.rs", "mutex: std::sync::Mutex<bool>,", "mutex: crate::verif_sync::Mutex<bool>,", 1),
    ("common/mod.rs", "condvar: std::sync::Condvar,", "condvar: crate::verif_sync::Condvar,", 1),
]
PROPS["C02"] = {
    "functions": ["co_pool::CoroutinePool::{new,submit_task,submit_raw_task,try_run,wait_task_result,try_take_task_result,notify}",
                  "co_pool::task::Task::{new,run}", "common::CondvarBlocker::notify",
                  "ordered_work_steal::OrderedLocalQueue::{push_with_priority,pop} (task queue)", "net::join::JoinHandle::{new,id,timeout_at_join}"],
    "bounds": "1 task with a symbolic result; 1 waiter and 1 completer thread, the completer's whole step (pop, run, "
              "store result, notify) placed at each of the scheduling points of wait_task_result (case split, completeness asserted) "
              "or while the waiter is blocked (24 positions: 8 in the quick tier, all in the thorough tier); a second join after one that timed out; "
              "2 pools sharing the abstract task queue (E12); JoinHandle::timeout_at_join on a finished task for every clock value and every deadline that is "
              "expired, now, or less than 1 s ahead.",
    "outside": "panicking tasks (E4: no unwinding under Kani), the coroutine-caller branch of wait_task_result, spurious wake-ups, "
               "more than one pre-emption, real Condvar/futex behaviour, deadlines a second or more ahead at the handle layer (no symbolic division), "
               "the EventLoops/C-ABI wrappers above JoinHandle.",
    "assumptions": ["E5: Mutex/Condvar replaced by the verif_sync model (blocking wait = the other thread runs to completion; records full timeouts)",
                    "dashmap / st3 / crossbeam-skiplist / crossbeam-deque / rand model crates; queue beans pre-created with 2 local queues of capacity 2",
                    "common::now stubbed; alloc::fmt::format stubbed"],
    "groups": [
        {"mounts": [("c02_join.rs", "co_pool/mod.rs")], "subs": _C02_SUBS, "cfgs": ["ocv_small"],
         # (c02_join_returns_own_result - two tasks joined in reverse order - ends with every check UNDETERMINED after 180 s and
         # is not registered; single-task value identity is asserted by every harness below)
         "harnesses": ['c02_completion_at_point_0', 'c02_completion_at_point_1', 'c02_completion_at_point_2', 'c02_completion_at_point_3', 'c02_completion_at_point_4', 'c02_completion_at_point_5', 'c02_completion_at_point_6', 'c02_completion_at_point_7', 'c02_completion_while_blocked', 'c02_rejoin_after_a_timed_out_join_is_woken', 'c02_result_reaches_the_waiter_whichever_pool_ran_the_task'],
         "thorough_harnesses": ['c02_completion_at_point_8', 'c02_completion_at_point_9', 'c02_completion_at_point_10', 'c02_completion_at_point_11', 'c02_completion_at_point_12', 'c02_completion_at_point_13', 'c02_completion_at_point_14', 'c02_completion_at_point_15', 'c02_completion_at_point_16', 'c02_completion_at_point_17', 'c02_completion_at_point_18', 'c02_completion_at_point_19', 'c02_completion_at_point_20', 'c02_completion_at_point_21', 'c02_completion_at_point_22', 'c02_completion_at_point_23'],
         "timeout": 1500, "timeout_thorough": 3000, "jobs": 4, "mem_gb": 24},
        # the handle layer (JoinHandle over a partially initialised event loop whose pool is real)
        {"mounts": [("c02_join.rs", "co_pool/mod.rs"), ("c02_handle.rs", "net/event_loop.rs")], "subs": _C02_SUBS, "cfgs": ["ocv_small"],
         "harnesses": ["c02_handle_join_of_a_finished_task_returns_its_value_for_every_deadline"],
         "timeout": 1500, "jobs": 1, "mem_gb": 24},
    ],
}

PROPS["C12"] = {
    "functions": ["co_pool::state::{stopping,stopped,change_state}", "CoroutinePool::{submit_task,do_clean,wait_task_result,notify,size}"],
    "bounds": "arbitrary pool state, 3 symbolic lifecycle requests; one submission from an arbitrary state; one waiter (any non-zero task id) "
              "blocked while the pool is cleaned up, or polling (a wait that timed out before the clean-up and one after it).",
    "outside": "'every task accepted earlier runs before stop reports success' and the event-loop drain (need the scheduling loop with real worker "
               "coroutines); concurrent submit/stop interleavings beyond the one block point.",
    "assumptions": ["E5 verif_sync Mutex/Condvar model", "queue beans pre-created small; model crates"],
    "groups": [
        {"mounts": [("c02_join.rs", "co_pool/mod.rs")], "subs": _C02_SUBS, "cfgs": ["ocv_small"],
         "harnesses": ["c12_lifecycle_only_moves_forward", "c12_stop_rejects_new_work", "c12_stop_settles_waiters", "c12_stop_settles_a_waiter_that_polls_fixed_id", "c12_stop_of_a_stopped_pool_settles_late_waiters"],
         # (the symbolic-id twin needs 28 GB and 260 s of SAT on an idle machine and ended without a verdict under load: thorough tier)
         "thorough_harnesses": ["c12_running_pool_accepts_work", "c12_stop_settles_a_waiter_that_polls"],
         "timeout": 1200, "timeout_thorough": 3000, "jobs": 2, "mem_gb": 28},
    ],
}
PROPS["C11"] = {
    "functions": ["co_pool::creator::CoroutineCreator::on_state_changed", "CoroutinePool::{submit_co,get_running_size,set_max_size}", "Scheduler::submit_co"],
    "bounds": "one listener notification for every (old, new) coroutine state pair and every running count; one submit_co for every running count and "
              "maximum size (running <= max).",
    "outside": "that every way a worker coroutine leaves scheduling notifies the listener (a coroutine dropped by the scheduler's pending-cancel branch "
               "does not - shown natively only, see DESIGN 8.2), keep-alive recycling, stop latency: they need Scheduler::do_schedule with real worker "
               "bodies (std HashMap/BinaryHeap + stack switching), not encodable here.",
    "assumptions": ["E5 verif_sync model", "queue beans pre-created small; model crates", "no task is queued while the listener runs (try_grow returns early)"],
    "groups": [
        {"mounts": [("c02_join.rs", "co_pool/mod.rs")], "subs": _C02_SUBS, "cfgs": ["ocv_small"],
         "harnesses": ["c11_listener_counts_terminated_workers", "c11_submit_co_respects_max_size"],
         "timeout": 1200, "jobs": 2, "mem_gb": 14},
    ],
}
PROPS["C13"] = {
    "functions": ["CoroutinePool::{try_cancel_task,try_run,submit_task,wait_task_result,clean_task_result}", "CANCEL_TASKS / RUNNING_TASKS bookkeeping"],
    "bounds": "2 queued tasks with symbolic priorities/values, a symbolic one of them cancelled before it starts (a late waiter of the cancelled one and "
              "a waiter of the other one afterwards); 1 waiter blocked while the worker meets the cancelled task; cancel followed by the drop of the "
              "task's handle (what JoinHandle::try_cancel(self) does); a repeated cancel after the worker - a coroutine - discarded the task.",
    "outside": "cancelling a RUNNING or SUSPENDED task (signal delivery to the scheduling thread, Scheduler::try_cancel_coroutine - needs real "
               "coroutine bodies; the cross-coroutine leak of a cancel request is decided under C09).",
    "assumptions": ["E5 verif_sync Mutex/Condvar model", "queue beans pre-created small; model crates"],
    "groups": [
        {"mounts": [("c02_join.rs", "co_pool/mod.rs")], "subs": _C02_SUBS, "cfgs": ["ocv_small"],
         "harnesses": ["c13_cancel_first_queued_task", "c13_cancel_second_queued_task", "c13_waiter_of_a_cancelled_task_is_not_left_blocked", "c13_late_waiter_of_a_cancelled_task_is_answered", "c13_cancel_then_drop_of_the_handle_keeps_the_task_cancelled", "c13_repeated_cancel_of_a_discarded_task_reaches_no_worker"],
         "timeout": 1500, "jobs": 2, "mem_gb": 24},
    ],
}

PROPS["C04"] = {
    "unwind_is_property": True,
    "functions": ["ordered_work_steal::OrderedLocalQueue::{push_with_priority,push_to_global,pop,pop_local,local_len,can_steal,max_steal}",
                  "ordered_work_steal::OrderedWorkStealQueue::{push_with_priority,pop}"],
    "bounds": "histories push(l0)^a pop(l1) push(l0)^b pop(l1) push(l0)^c over 2 local handles of capacity 2, exhaustively case-split over (a,b,c) in {0,1,2}^3 "
              "(6 instances in the quick tier, all 27 in the thorough tier), each with a symbolic i64 priority and a symbolic steal start index "
              "(pop(l1) on an empty l1 steals from l0); unwind 4 with unwinding assertions as the property.",
    "outside": "capacities > 2, more than 2 local queues, several priorities at once, real concurrency (C03), task/coroutine submission wrappers "
               "(they are one push plus a notify).",
    "assumptions": ["st3 / crossbeam-skiplist / crossbeam-deque / rand model crates (sequential contracts; the steal start index is symbolic)"],
    "groups": [
        {"mounts": [("c04_ows.rs", "common/ordered_work_steal.rs")], "cfgs": ["ocv_small"],
         "harnesses": ['c04_ows_history_122_terminates', 'c04_ows_history_200_terminates', 'c04_ows_history_211_terminates', 'c04_ows_history_212_terminates', 'c04_ows_history_221_terminates', 'c04_ows_history_222_terminates'],
         "thorough_harnesses": ['c04_ows_history_000_terminates', 'c04_ows_history_001_terminates', 'c04_ows_history_002_terminates', 'c04_ows_history_010_terminates', 'c04_ows_history_011_terminates', 'c04_ows_history_012_terminates', 'c04_ows_history_020_terminates', 'c04_ows_history_021_terminates', 'c04_ows_history_022_terminates', 'c04_ows_history_100_terminates', 'c04_ows_history_101_terminates', 'c04_ows_history_102_terminates', 'c04_ows_history_110_terminates', 'c04_ows_history_111_terminates', 'c04_ows_history_112_terminates', 'c04_ows_history_120_terminates', 'c04_ows_history_121_terminates', 'c04_ows_history_201_terminates', 'c04_ows_history_202_terminates', 'c04_ows_history_210_terminates', 'c04_ows_history_220_terminates'],
         "timeout": 900, "timeout_thorough": 1800, "jobs": 6, "mem_gb": 12},
    ],
}

PROPS["C05"] = {
    "functions": ["ordered_work_steal::OrderedWorkStealQueue::{push_with_priority,pop,len}",
                  "ordered_work_steal::OrderedLocalQueue::{push_with_priority,pop,pop_local,tick}"],
    "bounds": "histories push^a pop^b push^c pop^d drain with symbolic counts, 2 <= a + c <= 3 items, every priority a symbolic i64 "
              "(extremes, ties, negatives), on (i) the shared queue alone and (ii) one local handle of capacity 3 with the shared queue empty "
              "(never more items queued than the local capacity); unwind 5.",
    "outside": "more than 3 items / 3 distinct priorities (skip-list model bound); overflow to the shared queue and stolen items (reordering there is "
               "documented behaviour); the sentence about a single pool worker running tasks in that order (needs the pool pipeline).",
    "assumptions": ["crossbeam-skiplist / crossbeam-deque / st3 / rand model crates (sequential contracts)"],
    "groups": [
        {"mounts": [("c05_order.rs", "common/ordered_work_steal.rs")], "cfgs": ["ocv_small"],
         "harnesses": ["c05_shared_two_items_any_priorities", "c05_local_two_items_any_priorities"],
         # (the 3-item push^a pop^b push^c pop^d harnesses of the same file ran out of memory and are not registered)
         "timeout": 1500, "mem_gb": 30, "jobs": 2},
    ],
}

PROPS["C06"]["groups"].append(
    {"mounts": [("c04_ows.rs", "common/ordered_work_steal.rs")], "cfgs": ["ocv_small"],
     "harnesses": ['c06_ows_history_120_idle_victim_finds_work', 'c06_ows_history_200_idle_victim_finds_work', 'c06_ows_history_210_idle_victim_finds_work', 'c06_ows_history_211_idle_victim_finds_work', 'c06_ows_history_220_idle_victim_finds_work', 'c06_ows_history_221_idle_victim_finds_work'],
     "thorough_harnesses": ['c06_ows_history_000_idle_victim_finds_work', 'c06_ows_history_001_idle_victim_finds_work', 'c06_ows_history_002_idle_victim_finds_work', 'c06_ows_history_010_idle_victim_finds_work', 'c06_ows_history_011_idle_victim_finds_work', 'c06_ows_history_012_idle_victim_finds_work', 'c06_ows_history_020_idle_victim_finds_work', 'c06_ows_history_021_idle_victim_finds_work', 'c06_ows_history_022_idle_victim_finds_work', 'c06_ows_history_100_idle_victim_finds_work', 'c06_ows_history_101_idle_victim_finds_work', 'c06_ows_history_102_idle_victim_finds_work', 'c06_ows_history_110_idle_victim_finds_work', 'c06_ows_history_111_idle_victim_finds_work', 'c06_ows_history_112_idle_victim_finds_work', 'c06_ows_history_121_idle_victim_finds_work', 'c06_ows_history_122_idle_victim_finds_work', 'c06_ows_history_201_idle_victim_finds_work', 'c06_ows_history_202_idle_victim_finds_work', 'c06_ows_history_212_idle_victim_finds_work', 'c06_ows_history_222_idle_victim_finds_work'],
     "timeout": 900, "timeout_thorough": 1800, "jobs": 6, "mem_gb": 12,
     "bounds": "ordered queue: push(l0)^a pop(l1) push(l0)^b pop(l1) push(l0)^c pop(l0)^d pop(l0), 2 local handles of capacity 2, counts <= 2, one symbolic priority"})

PROPS["C03"] = {
    "functions": ["work_steal::WorkStealQueue::{push,pop,len}", "ordered_work_steal::OrderedWorkStealQueue::{push_with_priority,pop,len}"],
    "bounds": "plain queue: 2 threads x 1 operation each (all four pairs of push/pop) on a shared queue pre-filled with 0..=2 items, thread B's whole "
              "operation placed at one symbolic scheduling point inside thread A's (every Injector operation and every atomic operation is one) "
              "or after it; ordered queue: the push/push pair only, priorities in {0,1}; SeqCst. Sequential bookkeeping of the plain queue: the local pop "
              "that consults the shared queue first (every tick value that triggers it, 1..=3 shared items) and a local overflow (capacity 2) into a shared "
              "queue holding 0..=2 items - reported length = items held = what pop() drains.",
    "outside": "ordered-queue pairs that involve a pop (out of memory), 3 threads, non-nested interleavings, weak memory, internals of st3/crossbeam "
               "(trusted linearizable), local queues and steals between them (the ordered local queue's stale length after a sibling's steal is a "
               "native-only finding, DESIGN 8.2), drain-returns-exactly-the-rest for local queues.",
    "assumptions": ["E5 yielding atomics in the two queue files", "crossbeam-deque / crossbeam-skiplist model crates", "one pre-emption (DESIGN 2.7)"],
    "groups": [
        {"mounts": [("c03_ws_conc.rs", "common/work_steal.rs")], "atomics": ["common/work_steal.rs"],
         "harnesses": ["c03_ws_global_race"], "timeout": 900},
        {"mounts": [("c06_ws.rs", "common/work_steal.rs")],
         "harnesses": ["c03_ws_len_after_shared_first_pop", "c03_ws_len_after_local_overflow"], "timeout": 900,
         "bounds": "plain queue, sequential: 1 local handle of capacity 2, shared queue pre-filled with 0..=3 items, every tick value that makes the pop consult the shared queue first"},
        {"mounts": [("c03_ows_conc.rs", "common/ordered_work_steal.rs")], "atomics": ["common/ordered_work_steal.rs"],
         # only the push/push pair of the ordered queue fits: the three pairs with a pop (skip-list iteration + injector steal inside the
         # pre-empted operation) ran CBMC out of memory (20 GB) after 170-210 s of symbolic execution; they stay in the harness file
         "harnesses": ["c03_ows_race_push_push"], "timeout": 900},
        # (retried with the small model containers - skip list of 2 priorities, injectors of 4 - and 40 GB: c03_ows_race_push_pop still ended
        # without a verdict after 1247 s, so the pairs with a pop stay unregistered)
    ],
}

_CO_ASSUME = [
    "corosensei is replaced by the model crate: no stack switch; script mode = one scripted step per resume, performed through the repository's own functions (DESIGN 2.5)",
    "E1 (thread_local -> static), E2 (thread::current), E4 (catch_unwind runs the closure; panics are failures, so 'panic becomes an error' clauses are outside the claim), E7 (tail of Suspender::cancel)",
    "common::now stubbed with a virtual clock; alloc::fmt::format stubbed (message text is not part of any claim)",
]
PROPS["C07"] = {
    "functions": ["coroutine::state::{ready,running,suspend,syscall,cancel,complete,error,change_state}",
                  "coroutine::listener broadcast! (on_state_changed + per-state callbacks)", "Coroutine::new"],
    "bounds": "one transition request from an arbitrary current state (7 variants, symbolic payloads, every SyscallName variant x 4 syscall states) with symbolic "
              "arguments and symbolic clock, 1 listener; one solver query per transition function.",
    "outside": "panicking listeners (E4), 2+ listeners, the real body wrapper, whole resume sequences (scripted-body harnesses).",
    "assumptions": _CO_ASSUME,
    "groups": [
        {
            "mounts": [("c07_state.rs", "coroutine/state.rs")],
            "harnesses": ["c07_step_ready", "c07_step_running", "c07_step_suspend", "c07_step_syscall", "c07_step_cancel",
                          "c07_step_complete", "c07_step_error"],
            "timeout": 900, "jobs": 4, "mem_gb": 14,
        },
    ],
}

PROPS["C09"] = {
    "functions": ["coroutine::suspender::Suspender::{suspend_with,until_with,cancel,timestamp,is_cancel}",
                  "Coroutine::{resume_with,raw_resume,syscall,running,suspend,cancel,complete}", "state::change_state + listener broadcast"],
    "bounds": "3 scripted coroutines resumed once each on one thread; each first step symbolic from {plain suspend, until(ts), cancel, until(ts) in "
              "Syscall state, cancel in Syscall state, cancel while parked in Syscall(Suspend) (what EventLoop::wait_just leaves behind)} with symbolic "
              "64-bit timestamps.",
    "outside": "more coroutines / deeper histories, real stack switching, the signal-driven cancel racing with a switch, EventLoop::wait_just itself "
               "(its yielding part is transcribed as co.syscall(Suspend(ts)) + suspender.until(ts)).",
    "assumptions": _CO_ASSUME + ["E8: signal-handler installation skipped"],
    "groups": [
        {
            "mounts": [("c09_requests.rs", "coroutine/suspender.rs")],
            "harnesses": ["c09_step_plain_suspend", "c09_step_delay", "c09_step_cancel", "c09_step_delay_in_syscall_state",
                          "c09_step_cancel_in_syscall_state", "c09_step_cancel_while_parked_in_syscall"],
            # (the two 2-coroutine SEQUENCE harnesses c09_running_state_requests / c09_syscall_state_requests - a cross-check of the step
            # harnesses' invariant - are no longer registered: with 7 request kinds they end without a verdict at 30 GB; the step
            # harnesses decide the property for histories of any length)
            "timeout": 900, "timeout_thorough": 3000, "jobs": 6,
        },
    ],
}
PROPS["C08"] = {
    "functions": ["Coroutine::{new,resume_with,raw_resume}", "Suspender::suspend_with", "state::{running,suspend,complete} + listener broadcast"],
    "bounds": "one coroutine Coroutine<u16, u8, Option<usize>>, up to 2 yields then return (the returning step symbolic), every resume argument, yielded "
              "value and the return value symbolic; one more resume after completion.",
    "outside": "the panic half of the property (a panic becomes an Error without unwinding into the caller: Kani has no unwinding, E4); more than 2 yields; "
               "the transfer inside corosensei itself (replaced by the model: no stack switch).",
    "assumptions": _CO_ASSUME,
    "groups": [
        {"mounts": [("c09_requests.rs", "coroutine/suspender.rs")], "harnesses": ["c08_return_in_first_step", "c08_one_yield_then_return", "c08_two_yields_then_return"], "timeout": 900, "jobs": 3},
    ],
}
PROPS["C23"] = {
    "functions": ["Coroutine::maybe_grow_with (coroutine path and plain-thread path)", "Coroutine::{remaining_stack,stack_infos,stack_infos_mut}", "StackInfo::from"],
    "bounds": "every red zone, every stack size <= 16 MiB, every stack pointer position inside the current segment, segment allocation succeeding or "
              "failing; nesting depth 1 (coroutine) / 2 (thread).",
    "outside": "restoration after UNWINDING out of the callback (Kani has no unwinding; this is where the guarded coroutine path and the unguarded thread "
               "path differ) - hence 'deep recursion keeps working after a caught panic' is not decided; real stacks and psm; the hook/open-coroutine wrappers.",
    "assumptions": _CO_ASSUME + ["psm::stack_pointer is set by the harness; DefaultStack::new hands out fresh disjoint segments (corosensei model)"],
    "groups": [
        {"mounts": [("c23_stack.rs", "coroutine/korosensei.rs")], "harnesses": ["c23_grow_in_coroutine", "c23_grow_in_thread"], "timeout": 900},
    ],
}
PROPS["C25"]["groups"].append({
    "mounts": [("c09_requests.rs", "coroutine/suspender.rs")],
    "harnesses": ["c25_dropped_with_the_coroutine"],
    "timeout": 900,
    "bounds": "one real Coroutine (corosensei model, scripted first step) holding 2 values, dropped never-started / suspended / completed / cancelled",
})
PROPS["C07"]["groups"].append({
    "mounts": [("c09_requests.rs", "coroutine/suspender.rs")],
    "harnesses": ["c07_scripted_body_suspend_first", "c07_scripted_body_delay_first", "c07_scripted_body_cancel_first", "c07_scripted_body_return_first"],
    "timeout": 900, "jobs": 4,
})


# Properties claimed in MANIFEST.json: their quick checks were run from the committed tree on the unchanged
# repository and are quiet. The other entries above are development harnesses (runnable through bin/check,
# not claimed; reasons in not_applicable.py).
CLAIMED = ["C02", "C03", "C07", "C08", "C09", "C12", "C13", "C14", "C16", "C17", "C18", "C19", "C20", "C21", "C23", "C25", "C26", "C28"]


# Coroutine / pool harness groups: listener calls are `dyn Listener`; without vtable restriction CBMC takes the coroutine's own
# broadcasting `impl Listener for Coroutine` as a possible target of every listener call (nobody ever registers a coroutine as
# a listener), which makes every state change recurse to the unwind depth: 10.2 M program steps for two transitions instead of
# 0.5 M with `-Z restrict-vtable` (measured). The recording listener's counters assert that the real target IS still called.
# The selector / event-loop groups get it for the recursive drop glue of io::Error (Box<dyn Error> sources).
# Not the pool groups (c02_join.rs): kani-compiler 0.68 ICEs with the restriction on `Box<dyn FnOnce>` built from fn items
# (Task::new), and those harnesses make no coroutine state change.
for _pid, _cfg in PROPS.items():
    for _g in _cfg["groups"]:
        if any(m[0] in ("c09_requests.rs", "c23_stack.rs", "c14_wait.rs") for m in _g["mounts"]):
            _g.setdefault("kani_args", [])
            if "restrict-vtable" not in _g["kani_args"]:
                _g["kani_args"] += ["-Z", "restrict-vtable"]
