"""Property -> harness groups. One group = one scratch tree + one cargo-kani invocation.

group keys: mounts [(harness file, core/src-relative mount target)], harnesses [names] (quick and
thorough), thorough_harnesses [names] (thorough only), tier ("quick" default / "thorough": whole group
only in thorough), atomics [files rewritten with yielding atomics, E5], subs [extra counted rewrites],
timeout / timeout_thorough (s per harness), jobs, mem_gb, kani_args, bounds (text).
"""

PROPS = {}

PROPS["C28"] = {
    "functions": ["common::get_timeout_time", "common::get_slices", "syscall::unix::get_time_limit"],
    "bounds": "get_timeout_time / get_time_limit: loop-free, every input (64-bit secs, 32-bit nanos, every clock "
              "reading; every non-negative timeval). get_slices: slice any non-zero Duration <= u64::MAX/8 s, "
              "total = q*slice + r with q in 0..=4 (one solver query per q; for q = 3, 4 the quick tier restricts slice seconds to < 2^16, the thorough tier runs them at full width) and r < slice any; plus an inductive "
              "progress step for every total > slice > 0.",
    "outside": "get_slices with more than 5 pieces is covered only through the progress step (each iteration strictly "
               "decreases the remainder), not by an unrolled run; negative timeval fields (rejected by expect()) are "
               "exercised under C19.",
    "assumptions": ["common::now is replaced by a stub returning an arbitrary u64 (the clock is a symbolic variable)"],
    "groups": [
        {
            "mounts": [("c28_time.rs", "common/mod.rs"), ("c28_limit.rs", "syscall/unix/mod.rs")],
            "harnesses": ["c28_timeout_saturates", "c28_slices_q0", "c28_slices_q1", "c28_slices_q2",
                          "c28_slices_q3_narrow", "c28_slices_q4_narrow", "c28_slices_progress_step",
                          "c28_time_limit_all_timeval"],
            "thorough_harnesses": ["c28_slices_q3_full", "c28_slices_q4_full"],
            "timeout_thorough": 3000,
            "timeout": 300,
            "bounds": "see property bounds",
        },
    ],
}

PROPS["C14"] = {
    "functions": ["syscall::sleep (SleepSyscallFacade -> NioSleepSyscall)", "syscall::usleep", "syscall::nanosleep",
                  "syscall::poll (NioPollSyscall loop)", "syscall::select (NioSelectSyscall loop)",
                  "syscall::pthread_cond_timedwait (NioPthreadCondTimedwaitSyscall loop)"],
    "bounds": "sleep/usleep/nanosleep: loop-free, every argument value. poll: 0 <= timeout <= 64 ms (unwind 12). "
              "select: tv_sec = 0, 0 <= tv_usec <= 64000, and negative fields in [-2,0]. pthread_cond_timedwait: "
              "clock < 4 s, deadline within 25 ms of now or in the past (unwind 6). Slack per wait eps in [0, 1 ms].",
    "outside": "timeouts beyond the bounds (the slice loops are uniform in the timeout; the unit conversion is scale free); "
               "the coroutine-caller branch of the facade; real scheduling slack; poll(INT_MAX) treated as infinite.",
    "assumptions": [
        "common::now is a stub over a virtual clock (time is a symbolic variable)",
        "EventLoops::wait_event(d) is replaced by its contract: returns after d + eps, eps arbitrary in [0, 1 ms]",
        "the raw libc function is a scripted kernel reporting 'nothing ready' (or ready at the k-th probe)",
    ],
    "groups": [
        {
            "mounts": [("c14_timed.rs", "syscall/unix/mod.rs")],
            "harnesses": ["c14_sleep_all_secs", "c14_usleep_all_micros", "c14_nanosleep_all_timespec",
                          "c14_poll_timeout_le_64ms", "c14_poll_ready_returns_result", "c14_select_timeout_unit", "c14_select_timeout_le_64ms",
                          "c14_select_invalid_timeval", "c14_cond_timedwait_deadline"],
            "timeout": 300,
        },
    ],
}
