"""Property -> harness groups. One group = one scratch tree + one cargo-kani invocation.

group keys: mounts [(harness file, core/src-relative mount target)], harnesses [names] (quick and
thorough), thorough_harnesses [names] (thorough only), tier ("quick" default / "thorough": whole group
only in thorough), atomics [files rewritten with yielding atomics, E5], subs [extra counted rewrites],
timeout / timeout_thorough (s per harness), jobs, mem_gb, kani_args, bounds (text).
"""

PROPS = {}

PROPS["C28"] = {
    "functions": ["common::get_timeout_time", "common::get_slices", "syscall::unix::get_time_limit"],
    "bounds": "get_timeout_time / get_time_limit: loop-free, every input (64-bit secs, 32-bit nanos, every clock "
              "reading; every non-negative timeval). get_slices: slice any non-zero Duration <= u64::MAX/8 s, "
              "total = q*slice + r with q in 0..=4 (one solver query per q; for q = 3, 4 the quick tier restricts slice seconds to < 2^16, the thorough tier runs them at full width) and r < slice any; plus an inductive "
              "progress step for every total > slice > 0.",
    "outside": "get_slices with more than 5 pieces is covered only through the progress step (each iteration strictly "
               "decreases the remainder), not by an unrolled run; negative timeval fields (rejected by expect()) are "
               "exercised under C19.",
    "assumptions": ["common::now is replaced by a stub returning an arbitrary u64 (the clock is a symbolic variable)"],
    "groups": [
        {
            "mounts": [("c28_time.rs", "common/mod.rs"), ("c28_limit.rs", "syscall/unix/mod.rs")],
            "harnesses": ["c28_timeout_saturates", "c28_slices_q0", "c28_slices_q1", "c28_slices_q2",
                          "c28_slices_q3_narrow", "c28_slices_q4_narrow", "c28_slices_progress_step",
                          "c28_time_limit_all_timeval"],
            "thorough_harnesses": ["c28_slices_q3_full", "c28_slices_q4_full"],
            "timeout_thorough": 3000,
            "timeout": 300,
            "bounds": "see property bounds",
        },
    ],
}
