"""Properties not claimed, with the reason. Entries for ids in registry.CLAIMED are ignored."""
NA = {
    "C01": "quantifies over OS-thread interleavings through the whole submit->event loop->pool->coroutine pipeline; Kani has no threads and the pipeline (incl. real coroutine bodies, which need stack switching) is out of encodable size; the queue-level parts are decided under C03/C04/C06",
    "C15": "wall-clock overlap of real sleeping coroutines under dynamic-linker interposition and real stack switching; no source-level symbolic encoding exists for it",
    "C22": "signal-driven pre-emption with a monitor thread and an unsynchronised set; needs the `preemptive` feature, threads, signals and stack switches, none of which a symbolic run of the Rust source can express",
    "C24": "SIGSEGV/SIGBUS trap handler rewriting a real signal context to corosensei's trap entry; no encoding",
    "C27": "io_uring feature is not built in the pinned configuration and its behaviour is the kernel completion queue; no model available",
}
_UNFINISHED = "solver-based harness (Kani/CBMC) %s; not claimed until its quick check runs green end-to-end on the unchanged tree (DESIGN.md \u00a77)"
NA.update({
    "C03": _UNFINISHED % "for the one-pre-emption race on the shared queues exists but was not re-validated end-to-end in this round",
    "C06": _UNFINISHED % "for the tick window / shared-first step exists but was not re-validated end-to-end in this round",
    "C07": _UNFINISHED % "for the single-transition steps exists but was not re-validated end-to-end in this round",
    "C09": _UNFINISHED % "for scripted coroutines exists but was not re-validated end-to-end in this round",
    "C19": _UNFINISHED % "exists but is not sound yet: an un-stubbed getsockopt FFI call fails the 3-operation harness and the 2-operation harness does not finish in 600 s; the repeated-setsockopt assert it reports has not been replayed natively",
    "C21": _UNFINISHED % "exists; two of three harnesses verify, the two-event-loop harness reports a counterexample that has no native replayer yet, so it is neither a verdict nor a finding",
    "C26": _UNFINISHED % "for two racing first lookups exceeds the memory cap without a verdict",
})
for _p in ["C02", "C04", "C05", "C08", "C10", "C11", "C12", "C13", "C23"]:
    NA.setdefault(_p, "no solver harness built: needs the queue/scheduler/pool encodings planned in DESIGN.md \u00a73, whose probes (about 6 M SAT variables per ordered-queue operation) put them beyond the time available; not claimed")
