"""Properties not claimed, with the reason. Entries for ids in registry.CLAIMED are ignored."""
NA = {
    "C01": "quantifies over OS-thread interleavings through the whole submit->event loop->pool->coroutine pipeline; Kani has no threads and the pipeline (incl. real coroutine bodies, which need stack switching) is out of encodable size; the queue-level parts are decided under C03/C04/C06",
    "C15": "wall-clock overlap of real sleeping coroutines under dynamic-linker interposition and real stack switching; no source-level symbolic encoding exists for it",
    "C22": "signal-driven pre-emption with a monitor thread and an unsynchronised set; needs the `preemptive` feature, threads, signals and stack switches, none of which a symbolic run of the Rust source can express",
    "C24": "SIGSEGV/SIGBUS trap handler rewriting a real signal context to corosensei's trap entry; no encoding",
    "C27": "io_uring feature is not built in the pinned configuration and its behaviour is the kernel completion queue; no model available",
}
_QUEUE = ("solver harnesses exist (kani/harness/%s) but do not produce a verdict: one push + pop pair on the priority queue "
          "(OrderedLocalQueue over the skip-list / st3 / injector models) is 1.2 M program steps and ran CBMC out of memory at 40 GB, "
          "even with 2-entry model containers, concrete operation counts and unwind 4 (DESIGN 8.2). %s")
NA.update({
    "C02": _QUEUE % ("c02_join.rs", "A genuine defect was nevertheless shown natively and is documented: join() on a task that another event loop's pool ran never sees the result (ocv-replay join_cross_loop 8)."),
    "C04": _QUEUE % ("c04_ows.rs", "A genuine defect was shown natively and is documented: push_to_global spins forever after sibling steals (ocv-replay ows_history 2 p0:0 p0:0 o1 p0:0 p0:0 o1 p0:0)."),
    "C05": _QUEUE % ("c05_order.rs", "Nothing is known to fail for this property."),
    "C06": _QUEUE % ("c04_ows.rs / c06_ws.rs", "A genuine defect was shown natively and is documented: an idle ordered local queue whose items a sibling stole reports empty while the sibling still holds work (ocv-replay ows_history 4 ...)."),
    "C10": "needs Scheduler::do_schedule (std HashMap/BinaryHeap, the ordered ready queue and real resumptions per pass); the ready-queue operation alone exceeds the memory available to CBMC (see C04), so no harness was built",
    "C11": "the decidable parts are checked (kani/harness/c02_join.rs: CoroutineCreator::on_state_changed from an arbitrary running count, submit_co against every running/max pair; 64 s, green) but they do not decide the property: whether EVERY way a worker leaves scheduling reaches that listener needs Scheduler::do_schedule with real worker bodies (std HashMap/BinaryHeap, the ordered ready queue, stack switching), which is not encodable here. A genuine defect in exactly that part was shown natively and is documented (DESIGN 8.2): a worker whose task is cancelled while suspended is dropped by the scheduler's pending-cancel branch without any state change, get_running_size() stays 1 and stop() waits out its whole timeout (ocv-replay pool_cancel: running_after_cancel 1, stop_ms 1501 of 1500). Claiming the property on the partial check would hide that",
    "C13": _QUEUE % ("c02_join.rs", "A genuine defect was shown natively and is documented: the waiter of a task cancelled before it starts sleeps its whole timeout (ocv-replay pool_cancel 1)."),
})
