"""Properties not claimed (yet), with the reason. Entries for ids present in registry.PROPS are ignored."""
NA = {
    "C01": "quantifies over OS-thread interleavings through the whole submit->event loop->pool->coroutine pipeline; Kani has no threads and the pipeline (incl. real coroutine bodies, which need stack switching) is out of encodable size; the queue-level parts are decided under C03/C04/C06",
    "C15": "wall-clock overlap of real sleeping coroutines under dynamic-linker interposition and real stack switching; no source-level symbolic encoding exists for it",
    "C22": "signal-driven pre-emption with a monitor thread and an unsynchronised set; needs the `preemptive` feature, threads, signals and stack switches, none of which a symbolic run of the Rust source can express",
    "C24": "SIGSEGV/SIGBUS trap handler rewriting a real signal context to corosensei's trap entry; no encoding",
    "C27": "io_uring feature is not built in the pinned configuration and its behaviour is the kernel completion queue; no model available",
}
for _p in ["C02","C03","C04","C05","C06","C07","C08","C09","C10","C11","C12","C13","C16","C17","C18","C19","C20","C21","C23","C25","C26"]:
    NA.setdefault(_p, "harness not built yet in this round (planned, see DESIGN.md §3); not claimed until its check runs green end-to-end")
