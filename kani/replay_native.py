"""Native replay of solver counterexamples against the real /repo build (real dependencies).

`try_replay(prop, harness, record)` returns {"status": "reproduced" | "not_reproduced" | "unavailable", ...}.
A replayer exists per harness family; where none exists the counterexample is reported as found by
the solver (status "unavailable") - the evidence says so.
"""
import json
import os
import subprocess

VERIF = os.path.dirname(os.path.dirname(os.path.abspath(__file__)))
REPLAYERS = {}


def replayer(prefix):
    def deco(f):
        REPLAYERS[prefix] = f
        return f
    return deco


def try_replay(prop, harness, record):
    for prefix, f in REPLAYERS.items():
        if harness.startswith(prefix):
            try:
                return f(prop, harness, record)
            except Exception as e:  # pragma: no cover
                return {"status": "unavailable", "detail": f"replayer crashed: {e}"}
    return {"status": "unavailable", "detail": "no native replayer for this harness; solver counterexample only"}


def replay_file(prop, path):
    rec = json.load(open(path))
    v = try_replay(prop, rec["harness"], rec)
    print(json.dumps(v, indent=1))
    if v.get("status") == "reproduced":
        print(f"VIOLATION property={prop} replay={path}")
        return 1
    return 0 if v.get("status") == "not_reproduced" else 2


# ----------------------------------------------------------------------------------------------
# native replay binary (real /repo/core, real dependencies)
REPLAY_DIR = os.path.join(VERIF, "replay")
REPLAY_TARGET = os.path.join(REPLAY_DIR, "target")
_built = {"ok": None}


def build_replay():
    """(Re)builds /verif/replay against /repo's current working tree. Returns path of the binary or None."""
    if _built["ok"] is not None:
        return _built["ok"]
    import shutil
    repo = os.environ.get("VERIF_REPO", "/repo")
    shutil.copy(os.path.join(repo, "Cargo.lock"), os.path.join(REPLAY_DIR, "Cargo.lock"))
    env = dict(os.environ)
    env.update({"CARGO_NET_OFFLINE": "true"})
    env.pop("RUSTFLAGS", None)
    p = subprocess.run(["cargo", "build", "--offline", "--target-dir", REPLAY_TARGET], cwd=REPLAY_DIR, env=env,
                       capture_output=True, text=True, timeout=1200)
    binp = os.path.join(REPLAY_TARGET, "debug", "ocv-replay")
    _built["ok"] = binp if p.returncode == 0 and os.path.isfile(binp) else False
    if not _built["ok"]:
        _built["err"] = (p.stderr or "")[-2000:]
    return _built["ok"]


def run_case(args, timeout_s):
    """Runs one replay case. Returns dict(rc, timed_out, out(json or None), stderr_tail)."""
    binp = build_replay()
    if not binp:
        return {"error": "replay crate does not build: " + _built.get("err", "")}
    try:
        p = subprocess.run([binp] + [str(a) for a in args], capture_output=True, text=True, timeout=timeout_s)
    except subprocess.TimeoutExpired:
        return {"rc": None, "timed_out": True, "out": None, "stderr_tail": ""}
    out = None
    for line in p.stdout.splitlines():
        line = line.strip()
        if line.startswith("{"):
            try:
                out = json.loads(line)
            except Exception:
                pass
    return {"rc": p.returncode, "timed_out": False, "out": out, "stderr_tail": p.stderr[-400:]}


def _int(rec, idx, signed=True):
    vals = (rec.get("kani_values") or {}).get("values") or []
    if idx >= len(vals):
        return None
    return int.from_bytes(bytes(vals[idx]["bytes"]), "little", signed=signed)


@replayer("c14_select_timeout")
def _replay_select_timeout(prop, harness, rec):
    usec = _int(rec, 0)
    tried = []
    cands = [u for u in (usec, 64, 5000) if u is not None and 0 <= u <= 64000]
    for u in cands:
        budget = u / 1e6 + 2.0
        r = run_case(["select", 0, u], budget)
        if "error" in r:
            return {"status": "unavailable", "detail": r["error"]}
        tried.append({"tv_usec": u, "result": r})
        if r["timed_out"]:
            return {"status": "reproduced", "detail": f"select(timeout={u}us) still waiting after {budget:.1f}s", "tried": tried}
        o = r["out"] or {}
        el = o.get("elapsed_us")
        if el is not None and (el < u or el > u + 1000 + 15000 + u // 5):
            return {"status": "reproduced", "detail": f"select(timeout={u}us) returned after {el}us", "tried": tried}
    return {"status": "not_reproduced", "detail": "elapsed time within [T, T + 1ms + slack] for all replayed values", "tried": tried}


@replayer("c14_select_invalid")
def _replay_select_invalid(prop, harness, rec):
    sec, usec = _int(rec, 0), _int(rec, 1)
    if sec is None or usec is None:
        sec, usec = -1, 0
    r = run_case(["select", sec, usec], 10)
    if "error" in r:
        return {"status": "unavailable", "detail": r["error"]}
    o = r["out"]
    if o is None or r["rc"] not in (0,):
        return {"status": "reproduced", "detail": f"select(tv_sec={sec}, tv_usec={usec}) did not return (rc={r['rc']}): {r['stderr_tail'][-160:]}", "tried": [r]}
    if o.get("ret") != -1 or o.get("errno") != 22:
        return {"status": "reproduced", "detail": f"select(tv_sec={sec}, tv_usec={usec}) returned {o}", "tried": [r]}
    return {"status": "not_reproduced", "detail": f"returned -1/EINVAL: {o}"}
