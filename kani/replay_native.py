"""Native replay of solver counterexamples against the real /repo build (real dependencies).

`try_replay(prop, harness, record)` returns {"status": "reproduced" | "not_reproduced" | "unavailable", ...}.
A replayer exists per harness family; where none exists the counterexample is reported as found by
the solver (status "unavailable") - the evidence says so.
"""
import json
import os
import subprocess

VERIF = os.path.dirname(os.path.dirname(os.path.abspath(__file__)))
REPLAYERS = {}


def replayer(prefix):
    def deco(f):
        REPLAYERS[prefix] = f
        return f
    return deco


def try_replay(prop, harness, record):
    # longest matching prefix wins (`c16_readv` must reach the vectored replayer, not the `c16_re` one)
    for prefix, f in sorted(REPLAYERS.items(), key=lambda kv: -len(kv[0])):
        if harness.startswith(prefix):
            try:
                return f(prop, harness, record)
            except Exception as e:  # pragma: no cover
                return {"status": "unavailable", "detail": f"replayer crashed: {e}"}
    return {"status": "unavailable", "detail": "no native replayer for this harness; solver counterexample only"}


# Replayers that do not look at the solver's concrete values (they replay the scenario class natively): extracting the values
# costs a second solver run per failing harness, so it is skipped for them.
NO_VALUES = ("c26_first_mut_lookups", "c25_zero_sized", "c14_cond_timedwait_far", "c02_", "c03_", "c09_", "c12_", "c13_", "c20_", "c21_two_event_loops", "c21_step_", "c25_release_on_drop", "c26_first_lookups",
             "c26_sequential", "c19_history")


def needs_values(harness):
    return not harness.startswith(NO_VALUES)


def replay_file(prop, path):
    rec = json.load(open(path))
    v = try_replay(prop, rec["harness"], rec)
    print(json.dumps(v, indent=1))
    if v.get("status") == "reproduced":
        print(f"VIOLATION property={prop} replay={path}")
        return 1
    return 0 if v.get("status") == "not_reproduced" else 2


# ----------------------------------------------------------------------------------------------
# native replay binary (real /repo/core, real dependencies)
REPLAY_DIR = os.path.join(VERIF, "replay")
REPLAY_TARGET = os.path.join(REPLAY_DIR, "target")
_built = {"ok": None}


def build_replay():
    """(Re)builds /verif/replay against the repository's current working tree (VERIF_REPO, default /repo).
    Returns path of the binary or None. For a repository other than /repo the crate is copied to a temporary
    directory with its path dependency redirected (used when a check is pointed at a scratch worktree)."""
    if _built["ok"] is not None:
        return _built["ok"]
    import shutil
    import tempfile
    import atexit
    repo = os.environ.get("VERIF_REPO", "/repo")
    crate, target = REPLAY_DIR, REPLAY_TARGET
    if os.path.realpath(repo) != "/repo":
        crate = tempfile.mkdtemp(prefix="ocv-replay-")
        atexit.register(shutil.rmtree, crate, True)
        shutil.copytree(os.path.join(REPLAY_DIR, "src"), os.path.join(crate, "src"))
        toml = open(os.path.join(REPLAY_DIR, "Cargo.toml")).read().replace('"/repo/core"', f'"{repo}/core"')
        open(os.path.join(crate, "Cargo.toml"), "w").write(toml)
        target = os.path.join(crate, "target")
    shutil.copy(os.path.join(repo, "Cargo.lock"), os.path.join(crate, "Cargo.lock"))
    env = dict(os.environ)
    env.update({"CARGO_NET_OFFLINE": "true"})
    env.pop("RUSTFLAGS", None)
    p = subprocess.run(["cargo", "build", "--offline", "--target-dir", target], cwd=crate, env=env,
                       capture_output=True, text=True, timeout=1800)
    binp = os.path.join(target, "debug", "ocv-replay")
    _built["ok"] = binp if p.returncode == 0 and os.path.isfile(binp) else False
    if not _built["ok"]:
        _built["err"] = (p.stderr or "")[-2000:]
    return _built["ok"]


def run_case(args, timeout_s, extra_env=None):
    """Runs one replay case. Returns dict(rc, timed_out, out(json or None), stderr_tail)."""
    binp = build_replay()
    if not binp:
        return {"error": "replay crate does not build: " + _built.get("err", "")}
    try:
        env = dict(os.environ)
        env.update(extra_env or {})
        p = subprocess.run([binp] + [str(a) for a in args], capture_output=True, text=True, timeout=timeout_s, env=env)
    except subprocess.TimeoutExpired:
        return {"rc": None, "timed_out": True, "out": None, "stderr_tail": ""}
    out = None
    for line in p.stdout.splitlines():
        line = line.strip()
        if line.startswith("{"):
            try:
                out = json.loads(line)
            except Exception:
                pass
    return {"rc": p.returncode, "timed_out": False, "out": out, "stderr_tail": p.stderr[-400:]}


def _int(rec, idx, signed=True):
    vals = (rec.get("kani_values") or {}).get("values") or []
    if idx >= len(vals):
        return None
    return int.from_bytes(bytes(vals[idx]["bytes"]), "little", signed=signed)


@replayer("c14_select_timeout")
def _replay_select_timeout(prop, harness, rec):
    usec = _int(rec, 0)
    tried = []
    cands = [u for u in (usec, 64, 5000) if u is not None and 0 <= u <= 64000]
    for u in cands:
        budget = u / 1e6 + 2.0
        r = run_case(["select", 0, u], budget)
        if "error" in r:
            return {"status": "unavailable", "detail": r["error"]}
        tried.append({"tv_usec": u, "result": r})
        if r["timed_out"]:
            return {"status": "reproduced", "detail": f"select(timeout={u}us) still waiting after {budget:.1f}s", "tried": tried}
        o = r["out"] or {}
        el = o.get("elapsed_us")
        if el is not None and (el < u or el > u + 1000 + 15000 + u // 5):
            return {"status": "reproduced", "detail": f"select(timeout={u}us) returned after {el}us", "tried": tried}
    return {"status": "not_reproduced", "detail": "elapsed time within [T, T + 1ms + slack] for all replayed values", "tried": tried}


def _timed_native(case_args, t_us, what):
    """Nothing becomes ready: the call must not come back before t_us. Long timeouts are observed for 3 s only."""
    budget = min(t_us / 1e6, 3.0) + 2.0
    r = run_case(case_args, budget)
    if "error" in r:
        return {"status": "unavailable", "detail": r["error"]}
    if r["timed_out"]:
        if t_us / 1e6 > 3.0:
            return {"status": "not_reproduced", "detail": f"{what} still waiting after {budget:.1f}s (requested {t_us}us)", "tried": [r]}
        return {"status": "reproduced", "detail": f"{what} still waiting after {budget:.1f}s although only {t_us}us were requested", "tried": [r]}
    o = r["out"]
    if o is None:
        return {"status": "reproduced", "detail": f"{what} crashed: {r['stderr_tail'][-160:]}", "tried": [r]}
    el = o.get("elapsed_us", 0)
    if o.get("ret") == 0 and el < t_us:
        return {"status": "reproduced", "detail": f"{what} returned 0 after {el}us, earlier than the requested {t_us}us", "tried": [r]}
    if el > t_us + 1000 + 15000 + t_us // 5:
        return {"status": "reproduced", "detail": f"{what} returned after {el}us, requested {t_us}us", "tried": [r]}
    return {"status": "not_reproduced", "detail": f"{what}: elapsed {el}us for a requested {t_us}us", "tried": [r]}


@replayer("c14_select_any_timeval")
def _replay_select_any(prop, harness, rec):
    sec, usec = _int(rec, 0), _int(rec, 1)
    if sec is None or usec is None or sec < 0 or usec < 0:
        return {"status": "unavailable", "detail": "could not decode the counterexample"}
    return _timed_native(["select", sec, usec], sec * 1_000_000 + usec, f"select(tv_sec={sec}, tv_usec={usec})")


@replayer("c14_poll_any_timeout")
def _replay_poll_any(prop, harness, rec):
    t = _int(rec, 0)
    if t is None:
        return {"status": "unavailable", "detail": "could not decode the counterexample"}
    if t < 0:
        t_us = 10 ** 12
    else:
        t_us = t * 1000
    return _timed_native(["poll", t], t_us, f"poll(timeout={t}ms)")


@replayer("c14_select_invalid")
def _replay_select_invalid(prop, harness, rec):
    sec, usec = _int(rec, 0), _int(rec, 1)
    if sec is None or usec is None:
        sec, usec = -1, 0
    r = run_case(["select", sec, usec], 10)
    if "error" in r:
        return {"status": "unavailable", "detail": r["error"]}
    o = r["out"]
    if o is None or r["rc"] not in (0,):
        return {"status": "reproduced", "detail": f"select(tv_sec={sec}, tv_usec={usec}) did not return (rc={r['rc']}): {r['stderr_tail'][-160:]}", "tried": [r]}
    if o.get("ret") != -1 or o.get("errno") != 22:
        return {"status": "reproduced", "detail": f"select(tv_sec={sec}, tv_usec={usec}) returned {o}", "tried": [r]}
    return {"status": "not_reproduced", "detail": f"returned -1/EINVAL: {o}"}


# ---------------------------------------------------------------- C16/C18 single-buffer socket I/O
_KINDS = {0: "d", 1: "a", 2: "i", 3: "r", 4: "e"}


def _script_from(rec, start=0, k=3):
    items = []
    for i in range(k):
        kind = _int(rec, start + 2 * i, signed=False)
        n = _int(rec, start + 2 * i + 1, signed=False)
        if kind is None or n is None:
            break
        c = _KINDS.get(kind, "r")
        items.append(f"d{n}" if c == "d" else c)
    return items


def _io_oracle(o, blocking, entry, length):
    """Mirror of the harness oracle on a native run. Returns list of violated clauses."""
    bad = []
    if o is None:
        return ["no output (crash)"]
    r, moved = o["ret"], o["moved"]
    if r >= 0 and r != moved:
        bad.append(f"returned {r} but {moved} bytes were moved")
    if r < 0 and (r != -1 or moved != 0):
        bad.append(f"returned {r} after {moved} bytes were moved")
    if r == -1 and moved == 0 and o["calls"] > 0 and o["errno"] != o["last_errno"]:
        bad.append(f"errno {o['errno']} is not the failing call's errno {o['last_errno']}")
    if length == 0 and r != 0 and (o["calls"] == 0 or o["last_errno"] == 0):
        bad.append(f"zero-length request returned {r}")
    if bool(o["blocking_after"]) != bool(blocking):
        bad.append(f"blocking mode changed from {blocking} to {o['blocking_after']}")
    if entry in ("read", "recv"):
        want = [0xA0 + i for i in range(min(moved, 8))]
        if o["buf"][:len(want)] != want:
            bad.append(f"buffer {o['buf']} is not the stream prefix {want}")
    else:
        want = [0x40 + i for i in range(min(moved, 8))]
        if o["sink"][:len(want)] != want:
            bad.append(f"peer got {o['sink']} instead of {want}")
    return bad


@replayer("c16_zero_len_")
def _replay_zero_len(prop, harness, rec):
    entry = harness.rsplit("_", 1)[1]
    script = _script_from(rec)
    blocking = _int(rec, 14, signed=False)
    blocking = 1 if blocking is None else (blocking & 1)
    r = run_case(["io", entry, 0, blocking] + script, 20)
    if "error" in r:
        return {"status": "unavailable", "detail": r["error"]}
    bad = _io_oracle(r["out"], blocking, entry, 0)
    st = "reproduced" if bad else "not_reproduced"
    return {"status": st, "detail": "; ".join(bad) or "native run satisfies the oracle", "case": ["io", entry, 0, blocking] + script, "out": r["out"]}


def _buf_entry(harness):
    for e in ("recvfrom", "sendto", "read", "recv", "write", "send"):
        if harness.endswith("_" + e):
            return {"recvfrom": "recv", "sendto": "send"}.get(e, e)
    return None


@replayer("c16_re")
@replayer("c16_wr")
@replayer("c16_se")
@replayer("c18_mode_")
def _replay_buf(prop, harness, rec):
    entry = _buf_entry(harness)
    if entry is None:
        return {"status": "unavailable", "detail": "no entry point mapping"}
    # any() order of run_buf: 3 x (kind, n), STREAM 8 x u8, BLOCKING, limit flag (1 = unlimited), WAIT_FAILS_AT, len, buf 4 x u8
    script = _script_from(rec)
    blocking = (_int(rec, 14, signed=False) or 0) & 1
    unlimited = (_int(rec, 15, signed=False) or 0) & 1
    length = _int(rec, 17, signed=False)
    if length is None or length > 4:
        return {"status": "unavailable", "detail": "could not decode the counterexample"}
    # The exact run first; then natively replayable variants of it: a wait that fails or a time limit that expires in the
    # model becomes a hard error of the next kernel call (the hooks leave their loops through the same exits), and a real
    # 15 ms SO_SNDTIMEO/SO_RCVTIMEO with a kernel that takes 8 ms to say EAGAIN makes the limit expire natively.
    variants = [(script, None)]
    for cut in range(len(script), 0, -1):
        v = script[:cut - 1] + ["r"]
        if v != script and (v, None) not in variants:
            variants.append((v, None))
    if not unlimited:
        variants.append((script, {"OCV_LIMIT_MS": "15", "OCV_EAGAIN_SLEEP_MS": "8"}))
    tried = []
    for v, env in variants:
        r = run_case(["io", entry, length, blocking] + v, 30, extra_env=env)
        if "error" in r:
            return {"status": "unavailable", "detail": r["error"]}
        bad = _io_oracle(r["out"], blocking, entry, length)
        if prop == "C18":
            bad = [b for b in bad if "blocking mode" in b]
        tried.append({"case": ["io", entry, length, blocking] + v, "env": env, "violations": bad})
        if bad:
            return {"status": "reproduced", "detail": "; ".join(bad), "case": ["io", entry, length, blocking] + v, "env": env,
                    "variant_of_counterexample": v != script or env is not None, "out": r["out"], "tried": tried}
    return {"status": "not_reproduced", "detail": "the native run and its replayable variants satisfy the oracle", "tried": tried}


# ---------------------------------------------------------------- C16/C17 vectored socket I/O
def vec_oracle(o, lens, script, blocking, prop):
    """Mirror of the harness's vectored oracle on a native run (requests = [count, [[buffer, offset, len]..]])."""
    if o is None:
        return ["no output (crash / abort inside the hooked call)"]
    bad = []
    starts = [0]
    for l in lens:
        starts.append(starts[-1] + l)
    moved, si = 0, 0
    for cnt, elems in o["requests"]:
        if cnt != len(elems):
            bad.append(f"C17 element count {cnt} does not match the array")
        cursor, offered = moved, 0
        for which, off, l in elems:
            if l == 0:
                continue
            if which < 0 or which >= len(lens) or off + l > lens[which]:
                bad.append(f"C17 range (buffer {which}, offset {off}, len {l}) is outside the caller's buffers")
                offered += l
                continue
            lp = starts[which] + off
            if lp < cursor:
                bad.append(f"C17 range (buffer {which}, offset {off}, len {l}) already transferred or out of order (next position {cursor})")
            elif lp != cursor:
                bad.append(f"C16 range (buffer {which}, offset {off}, len {l}) is not the next position {cursor}")
            cursor = max(cursor, lp + l)
            offered += l
        r = script[si] if si < len(script) else "r"
        si += 1
        if r[0] == "d":
            moved += min(int(r[1:]), offered)
    if prop == "C16":
        if o["ret"] >= 0 and o["ret"] != o["moved"]:
            bad.append(f"C16 returned {o['ret']} but {o['moved']} bytes were moved")
        if o["ret"] < 0 and (o["ret"] != -1 or o["moved"] != 0):
            bad.append(f"C16 returned {o['ret']} after {o['moved']} bytes were moved")
        if o["ret"] == -1 and o["moved"] == 0 and o["calls"] > 0 and o["errno"] != o["last_errno"]:
            bad.append(f"C16 errno {o['errno']} is not the failing call's errno {o['last_errno']}")
        if sum(lens) == 0 and o["ret"] != 0 and (o["calls"] == 0 or o["last_errno"] == 0):
            bad.append(f"C16 request with only empty buffers returned {o['ret']}")
        if o["moved"] > sum(lens):
            bad.append("C16 more bytes moved than requested")
    else:
        bad = [b for b in bad if b.startswith("C17")]
    return bad


@replayer("c16_readv")
@replayer("c16_writev")
@replayer("c16_recvmsg")
@replayer("c16_sendmsg")
@replayer("c17_")
def _replay_vec(prop, harness, rec):
    """any() order of run_vec: 3 x (kind, n), STREAM 8 x u8, BLOCKING, limit flag, WAIT_FAILS_AT, BUFS 4 x u8, l0, l1."""
    entry = harness.split("_", 1)[1]
    script = _script_from(rec)[:2]  # vectored harnesses use 2 scripted responses, then the peer resets
    blocking = (_int(rec, 14, signed=False) or 0) & 1
    unlimited = (_int(rec, 15, signed=False) or 0) & 1
    lens = [_int(rec, 21, signed=False), _int(rec, 22, signed=False)]
    if len(script) < 2 or any(l is None or l > 2 for l in lens):
        return {"status": "unavailable", "detail": "could not decode the counterexample"}
    case = ["vec", entry, blocking, ",".join(str(l) for l in lens)] + script
    env = None if unlimited else {"OCV_LIMIT_MS": "15"}
    r = run_case(case, 30, extra_env=env)
    if "error" in r:
        return {"status": "unavailable", "detail": r["error"]}
    bad = vec_oracle(r["out"], lens, script, blocking, prop)
    st = "reproduced" if bad else "not_reproduced"
    return {"status": st, "detail": "; ".join(bad) or "native run satisfies the oracle (a wait-failure choice of the counterexample is not replayable natively)",
            "case": case, "env": env, "out": r["out"], "stderr_tail": r.get("stderr_tail", "")}


@replayer("c18_nonblocking_")
def _replay_nonblocking(prop, harness, rec):
    entry = _buf_entry(harness)
    script = _script_from(rec)
    length = _int(rec, 17, signed=False)
    if not script or script[0] != "a" or length is None or not (1 <= length <= 4):
        script, length = ["a", "d2"], 4
    r = run_case(["io", entry, length, 0] + script, 30)
    if "error" in r:
        return {"status": "unavailable", "detail": r["error"]}
    o = r["out"]
    if o is None:
        return {"status": "reproduced", "detail": "crash", "out": r}
    if o["ret"] == -1 and o["errno"] == 11 and o["calls"] == 1:
        return {"status": "not_reproduced", "detail": "returned -1/EAGAIN after one kernel call", "out": o}
    return {"status": "reproduced", "case": ["io", entry, length, 0] + script, "out": o,
            "detail": f"non-blocking descriptor, kernel said EAGAIN: hook waited and returned {o['ret']} (errno {o['errno']}) after {o['calls']} kernel calls / {o['elapsed_us']}us"}


@replayer("c20_")
def _replay_c20(prop, harness, rec):
    """A coroutine blocks in a hooked recv; the peer writes 2 ms later. If readiness wakes the coroutine the
    latency is ~2 ms; if only the 10 ms wait slice does, it is >= 10 ms."""
    r = run_case(["wake_latency", 7, 2000], 60)
    if "error" in r:
        return {"status": "unavailable", "detail": r["error"]}
    o = r["out"]
    if o is None:
        return {"status": "reproduced", "detail": f"crash: {r['stderr_tail'][-200:]}"}
    lat = sorted(o["latency_us"])
    med = lat[len(lat) // 2]
    st = "reproduced" if med > 7000 else "not_reproduced"
    return {"status": st, "out": o,
            "detail": f"median wake latency {med}us for data arriving after 2000us (slice timeout is 10000us)"}


@replayer("c25_zero_sized")
def _replay_c25_zst(prop, harness, rec):
    r = run_case(["local_zst"], 20)
    if "error" in r:
        return {"status": "unavailable", "detail": r["error"]}
    o = r["out"]
    if o is None:
        return {"status": "reproduced", "detail": f"crash: {r['stderr_tail'][-200:]}"}
    ok = o["overwritten_handed_back"] and o["removed_handed_back"] and o["dropped_before_storage_drop"] == 2 and o["dropped_total"] == 3
    return {"status": "not_reproduced" if ok else "reproduced", "out": o,
            "detail": f"3 zero-sized values created (one overwritten, one removed, one left stored): {o['dropped_before_storage_drop']} dropped before and "
                      f"{o['dropped_total']} after the local storage was dropped"}


@replayer("c14_cond_timedwait_far")
def _replay_c14_cond_far(prop, harness, rec):
    outs = []
    for sec in (18_446_744_074, 18_446_744_075, 36_893_488_148, 2 ** 62, 2 ** 63 - 1, 5_000_000_000):
        r = run_case(["cond_far", sec, 0], 20)
        if "error" in r:
            return {"status": "unavailable", "detail": r["error"]}
        o = r["out"]
        if o is None:
            return {"status": "reproduced", "detail": f"tv_sec={sec}: the hooked call crashed: {r['stderr_tail'][-200:]}"}
        outs.append(o)
        if o["ret"] != 0 or o["native_calls"] != 1:
            return {"status": "reproduced", "out": o,
                    "detail": f"deadline tv_sec={sec} (far in the future): hooked pthread_cond_timedwait returned {o['ret']} after {o['native_calls']} native wait(s); "
                              "the native call would have been signalled at once"}
    return {"status": "not_reproduced", "out": outs, "detail": "every far-future deadline was waited for through the native call"}


@replayer("c25_release_on_drop")
def _replay_c25_release(prop, harness, rec):
    r = run_case(["local_drop", 2], 20)
    if "error" in r:
        return {"status": "unavailable", "detail": r["error"]}
    o = r["out"]
    if o is None:
        return {"status": "reproduced", "detail": f"crash: {r['stderr_tail'][-200:]}"}
    st = "reproduced" if o["dropped"] != o["stored"] else "not_reproduced"
    return {"status": st, "out": o, "detail": f"{o['stored']} values stored, {o['dropped']} dropped when the local storage was dropped"}


@replayer("c21_step_wait_read_refused")
@replayer("c21_step_wait_write_refused")
def _replay_c21_refused(prop, harness, rec):
    """A wait on a regular file is refused by epoll (EPERM); the number is closed through the hook and reused by a socket;
    the next wait must put the socket into the epoll interest list (read from /proc/self/fdinfo)."""
    outs = []
    for d in (["r", "w"] if "read" in harness else ["w", "r"]):
        r = run_case(["interest_refused", d], 30)
        if "error" in r:
            return {"status": "unavailable", "detail": r["error"]}
        o = r["out"]
        if o is None:
            return {"status": "unavailable", "detail": f"native case crashed: {r['stderr_tail'][-200:]}"}
        outs.append(o)
        if not o["first_wait_failed"]:
            return {"status": "unavailable", "out": o, "detail": "native scenario did not set up as intended (epoll accepted the regular file)"}
        if not o["registered"]:
            return {"status": "reproduced", "out": o,
                    "detail": f"after a refused wait on descriptor {o['fd']}, close and reuse of the number by a socket, a wait for "
                              f"{'read' if d == 'r' else 'write'} readiness returned {'Ok' if o['second_wait_ok'] else 'Err'} but the epoll interest list holds {o['epoll_interest']}"}
    return {"status": "not_reproduced", "out": outs, "detail": "the reused descriptor was registered with the epoll instance in both directions"}


@replayer("c21_step_")
def _replay_c21_step(prop, harness, rec):
    """One interest operation from a state built with real waits on a real socket and event loop; the epoll interest list of
    the descriptor (/proc/self/fdinfo) is compared with the outstanding interests. Both variants of the state (readiness event
    already delivered or not) are replayed: the step harness leaves that symbolic."""
    import re
    m = re.match(r"c21_step_(.+)_from_(none|read|write|both)$", harness)
    ops = {"wait_read": "wait_read", "wait_write": "wait_write", "del_both": "del_both", "del_read": "del_read", "del_write": "del_write",
           "close_and_reuse": "close", "hooked_close": "hooked_close", "event_delivered": "event"}
    if not m or m.group(1) not in ops:
        return {"status": "unavailable", "detail": "no native replayer for this step"}
    outs = []
    for delivered in (0, 1):
        r = run_case(["interest_step", m.group(2), delivered, ops[m.group(1)]], 30)
        if "error" in r:
            return {"status": "unavailable", "detail": r["error"]}
        o = r["out"]
        if o is None:
            return {"status": "unavailable", "detail": f"native case crashed: {r['stderr_tail'][-200:]}"}
        outs.append(o)
        if o["op_error"] or o["os_mask"] != o["expected_mask"]:
            names = {0: "nothing", 1: "read", 4: "write", 5: "read+write"}
            return {"status": "reproduced", "out": o,
                    "detail": f"descriptor with {m.group(2)} interest outstanding (readiness event {'already' if delivered else 'not yet'} delivered), then "
                              f"{ops[m.group(1)]}: the epoll instance holds {names.get(o['os_mask'], o['os_mask'])} interest for descriptor {o['fd']}, "
                              f"the outstanding waits are {names.get(o['expected_mask'], o['expected_mask'])}"
                              + (f"; the operation failed: {o['op_error']}" if o["op_error"] else "")}
    return {"status": "not_reproduced", "out": outs, "detail": "the epoll interest list matched the outstanding interests in both variants"}


@replayer("c21_two_event_loops")
def _replay_c21_two_loops(prop, harness, rec):
    """Two real event loops: a task on one loop waits for a socket (its epoll instance registers it), later a task on the
    OTHER loop waits for the same socket. /proc/self/fdinfo shows which epoll instances hold the socket while it waits."""
    r = run_case(["two_loops", 6], 180)
    if "error" in r:
        return {"status": "unavailable", "detail": r["error"]}
    o = r["out"]
    if o is None:
        return {"status": "unavailable", "detail": f"native case crashed: {r['stderr_tail'][-200:]}"}
    usable = [t for t in o["trials"] if t["first_thread"] != t["second_thread"] and t["epolls_after_first"]]
    if not usable:
        return {"status": "unavailable", "detail": "no trial in which the two tasks ran on different event loops", "out": o}
    bad = [t for t in usable if set(t["epolls_while_second_waits"]) <= set(t["epolls_after_first"])]
    if bad:
        t = bad[0]
        return {"status": "reproduced", "out": o,
                "detail": f"task on {t['second_thread']} waits for a socket that only epoll instance(s) {t['epolls_while_second_waits']} "
                          f"(registered earlier through {t['first_thread']}) hold; woken after {t['second_latency_us']}us for data sent after 2000us"}
    return {"status": "not_reproduced", "out": o, "detail": "the waiting loop's own epoll instance holds the socket in every usable trial"}


# ---------------------------------------------------------------- C19 socket time limits
def _sockopt_oracle(r):
    """Violations visible in a native `sockopt` history: abort, failing setsockopt the kernel accepts, applied limit != kernel value."""
    if r.get("timed_out"):
        return ["the history did not finish"]
    if r["rc"] != 0 or r["out"] is None:
        last = [l for l in r["stderr_tail"].splitlines() if l.startswith("op ")]
        return [f"process aborted inside a hooked call (rc={r['rc']}; {r['stderr_tail'][-300:].strip().splitlines()[-1] if r['stderr_tail'].strip() else ''}) {last[-1] if last else ''}"]
    bad = []
    for o in r["out"]["ops"]:
        if "applied" in o and o["applied"] != o["kernel"]:
            bad.append(f"{o['op']}: hooked I/O applies {o['applied']} ns but the socket's option is {o['kernel']} ns")
    return bad


def _tv_arg(sec, usec):
    return f"{sec}.{usec}"


@replayer("c19_step_")
def _replay_c19_step(prop, harness, rec):
    v = [_int(rec, i) for i in range(15)]
    if any(x is None for x in v):
        return {"status": "unavailable", "detail": "could not decode the counterexample"}
    tvs = [[(v[0], v[1]), (v[2], v[3])], [(v[4], v[5]), (v[6], v[7])]]
    cached = [[v[8] & 1, v[9] & 1], [v[10] & 1, v[11] & 1]]
    slot = 0 if (v[12] & 1) else 1
    op_tv = (v[13], v[14])
    # The step harnesses treat the conversion as an uninterpreted function, so only the equality pattern of the timevals (and
    # which of them are zero / rejected) matters. The solver likes values the real kernel clamps to "forever"; replace them by
    # small distinct values with the same pattern: zero stays zero, the k-th distinct non-zero timeval becomes k+1 seconds.
    canon = {}

    def c(tv, is_op=False):
        sec, usec = tv
        if is_op and (usec < 0 or usec >= 1_000_000):
            return (1, 2_000_000)  # rejected by the kernel (EDOM)
        if is_op and sec < 0:
            return (-1, 0)  # accepted by Linux, stored as zero
        if sec == 0 and usec == 0:
            return (0, 0)
        if tv not in canon:
            canon[tv] = (len(canon) + 1, 0)
        return canon[tv]
    tvs = [[c(tvs[0][0]), c(tvs[0][1])], [c(tvs[1][0]), c(tvs[1][1])]]
    op_tv = c(op_tv, True)
    ops = []
    for i in (0, 1):
        ops += [f"{i}R{_tv_arg(*tvs[i][0])}", f"{i}S{_tv_arg(*tvs[i][1])}"]
    for i in (0, 1):
        if cached[i][0]:
            ops.append(f"{i}r")
        if cached[i][1]:
            ops.append(f"{i}s")
    kind = {"set_rcvtimeo": f"{slot}R{_tv_arg(*op_tv)}", "set_sndtimeo": f"{slot}S{_tv_arg(*op_tv)}",
            "query_recv_limit": f"{slot}r", "query_send_limit": f"{slot}s", "close_and_reuse": f"{slot}c",
            "close_interrupted_and_reuse": f"{slot}C"}
    for k, o in kind.items():
        if harness.endswith(k):
            ops.append(o)
    ops += ["0r", "0s", "1r", "1s"]
    r = run_case(["sockopt"] + ops, 30)
    if "error" in r:
        return {"status": "unavailable", "detail": r["error"]}
    bad = _sockopt_oracle(r)
    return {"status": "reproduced" if bad else "not_reproduced", "case": ["sockopt"] + ops,
            "detail": "; ".join(bad) or "native history on real sockets satisfies the oracle", "out": r["out"]}


@replayer("c19_conversion")
def _replay_c19_conv(prop, harness, rec):
    sec, usec = _int(rec, 0), _int(rec, 1)
    if sec is None or usec is None:
        return {"status": "unavailable", "detail": "could not decode the counterexample"}
    # the real kernel only stores tv_usec < 10^6 and rounds to its tick; replay the value class on a real socket
    usec = usec % 1_000_000
    tried = []
    for s_, u_ in ((sec, usec), (0, usec), (sec, 0)):
        r = run_case(["sockopt", f"0R{_tv_arg(s_, u_)}", "0r", f"0S{_tv_arg(s_, u_)}", "0s"], 30)
        if "error" in r:
            return {"status": "unavailable", "detail": r["error"]}
        bad = _sockopt_oracle(r)
        tried.append({"tv": [s_, u_], "bad": bad})
        if bad:
            return {"status": "reproduced", "detail": "; ".join(bad), "tried": tried}
    return {"status": "unavailable", "detail": "the conversion error of the counterexample does not show for the values the real kernel stores "
            "(it saturates/rounds large values); solver counterexample only", "tried": tried}


@replayer("c19_history")
def _replay_c19_history(prop, harness, rec):
    # fixed battery of the histories the property names (the symbolic history's exact values are not needed to show an abort)
    tried = []
    for ops in (["0R1.5", "0R2.0", "0r"], ["0r", "0R1.500000", "0r", "1r"], ["0R1.5", "0r", "0c", "0r", "0s"], ["0S2.0", "0s", "0r", "1s"]):
        r = run_case(["sockopt"] + ops, 30)
        if "error" in r:
            return {"status": "unavailable", "detail": r["error"]}
        bad = _sockopt_oracle(r)
        tried.append({"ops": ops, "bad": bad})
        if bad:
            return {"status": "reproduced", "detail": "; ".join(bad), "tried": tried}
    return {"status": "unavailable", "detail": "the fixed native histories pass; solver counterexample only", "tried": tried}


# ---------------------------------------------------------------- queues, pools, beans
@replayer("c03_")
def _replay_c03(prop, harness, rec):
    ordered = 1 if "ows" in harness else 0
    r = run_case(["ws_len_race", ordered, 12, 3, 20000], 120)
    if "error" in r:
        return {"status": "unavailable", "detail": r["error"]}
    o = r["out"]
    if o is None:
        return {"status": "unavailable", "detail": f"native case crashed: {r['stderr_tail'][-200:]}"}
    if o["bad"]:
        b = o["bad"][0]
        return {"status": "reproduced", "out": {"runs": o["runs"], "bad_runs": len(o["bad"]), "first": b},
                "detail": f"{len(o['bad'])} of {o['runs']} runs: 3 threads pushed {b['pushed']} items concurrently, the shared queue reports "
                          f"{b['reported_len']} and pop() drains {b['drained_by_pop']}"}
    if not ordered:
        # second native scenario for the plain queue: pops racing with the pushes (a pop that finds the injector empty although
        # the counter said otherwise is only reachable that way)
        r = run_case(["ws_len_race", 0, 12, 2, 20000, "mixed"], 180)
        o2 = r.get("out") if "error" not in r else None
        if o2 and o2["bad"]:
            b = o2["bad"][0]
            return {"status": "reproduced", "out": {"runs": o2["runs"], "bad_runs": len(o2["bad"]), "first": b},
                    "detail": f"{len(o2['bad'])} of {o2['runs']} runs: 1 thread pushed {b['pushed']} items while 2 threads popped; {b['popped_by_threads']} were popped, "
                              f"afterwards the shared queue reports {b['reported_len']} and pop() drains {b['drained_by_pop']}"}
    return {"status": "not_reproduced", "detail": "reported length and drain matched the pushes in every run (the race is probabilistic)", "out": o}


@replayer("c03_ws_len_after_")
def _replay_c03_seq(prop, harness, rec):
    """Sequential bookkeeping of the plain queue (deterministic): the shared queue's reported length after the pop that
    consults it first / after a local overflow, compared with what its own pop() drains."""
    kind = 0 if "shared_first" in harness else 1
    outs = []
    for pre in ((1, 2, 3) if kind == 0 else (0, 1, 2)):
        r = run_case(["ws_seq", kind, pre], 60)
        if "error" in r:
            return {"status": "unavailable", "detail": r["error"]}
        o = r["out"]
        if o is None:
            return {"status": "unavailable", "detail": f"native case crashed: {r['stderr_tail'][-200:]}"}
        outs.append(o)
        if o["reported_len"] != o["expected"] or o["drained_by_pop"] != o["expected"]:
            what = "the 61st local pop took one of them" if kind == 0 else "a full local queue (capacity 2) overflowed into it"
            return {"status": "reproduced", "out": o,
                    "detail": f"shared queue held {o['pre']} item(s), {what}: it now reports {o['reported_len']} and pop() drains "
                              f"{o['drained_by_pop']}, expected {o['expected']}"}
    return {"status": "not_reproduced", "detail": "reported length and drain matched in every sequential scenario", "out": outs}


@replayer("c20_remaining_waiter")
def _replay_c20_remaining(prop, harness, rec):
    """Reader and writer wait for one socket; one gives up and drops its interest; the socket then becomes ready for the other:
    woken by readiness it is back within milliseconds, otherwise only when its own 2 s wait expires."""
    outs = []
    for dw in (1, 0):
        r = run_case(["remaining_waiter", dw], 60)
        if "error" in r:
            return {"status": "unavailable", "detail": r["error"]}
        o = r["out"]
        if o is None:
            return {"status": "unavailable", "detail": f"native case crashed: {r['stderr_tail'][-200:]}"}
        outs.append(o)
        if not o["quitter_done"] or o["stayer_back_before_ready"]:
            return {"status": "unavailable", "detail": f"native scenario did not set up as intended: {o}"}
        if not o["stayer_back"] or o["latency_us"] > 500_000:
            who = "reader" if dw else "writer"
            gone = "writer" if dw else "reader"
            return {"status": "reproduced", "out": o,
                    "detail": f"after the {gone} dropped its interest, the {who} still waiting for the socket came back "
                              f"{o['latency_us']}us after the socket became ready (readiness wake: milliseconds; its own timeout: 2 s)"}
    return {"status": "not_reproduced", "out": outs,
            "detail": "the remaining waiter was woken by readiness in both variants: latencies " + ", ".join(str(o["latency_us"]) + "us" for o in outs)}


def _ows_ops(rec, with_final):
    prio = _int(rec, 0)
    a, b, c, d = (_int(rec, i, signed=False) for i in (1, 2, 3, 4))
    if None in (prio, a, b, c, d) or max(a, b, c, d) > 2:
        return None
    ops = [f"p0:{prio}"] * a + ["o1"] + [f"p0:{prio}"] * b + ["o1"] + [f"p0:{prio}"] * c
    if with_final:
        ops += ["o0"] * d + ["o0", "o1", "o1", "o0"]
    return ops


@replayer("c04_ows_")
@replayer("c06_ows_")
def _replay_ows(prop, harness, rec):
    with_final = harness.startswith("c06_")
    ops = _ows_ops(rec, with_final)
    if ops is None:
        return {"status": "unavailable", "detail": "could not decode the counterexample"}
    r = run_case(["ows_history", 2] + ops, 30)
    if "error" in r:
        return {"status": "unavailable", "detail": r["error"]}
    o = r["out"]
    if r["timed_out"] or r["rc"] == 3 or (o and "spin_at_op" in o):
        return {"status": "reproduced", "case": ["ows_history", 2] + ops, "out": o,
                "detail": f"operation {o.get('spin_at_op') if o else '?'} of the history never returns (2 s watchdog)"}
    if o is None:
        return {"status": "reproduced", "case": ops, "detail": f"crash: {r['stderr_tail'][-200:]}"}
    if with_final:
        pops = o["pops"]
        for i, p in enumerate(pops):
            if p["local"] == 0 and p["got"] is None and any(q["got"] is not None for q in pops[i + 1:]):
                return {"status": "reproduced", "case": ["ows_history", 2] + ops, "out": o,
                        "detail": f"pop at op {p['op']} on local queue 0 reported empty although a later pop still found an item"}
        got = [p["got"] for p in pops if p["got"] is not None]
        if len(set(got)) != len(got):
            return {"status": "reproduced", "case": ops, "out": o, "detail": "an item was returned twice"}
    return {"status": "not_reproduced", "case": ["ows_history", 2] + ops, "out": o, "detail": "native history satisfies the oracle"}


@replayer("c26_sequential_lookups")
def _replay_c26_seq(prop, harness, rec):
    r = run_case(["beans_seq"], 30)
    if "error" in r:
        return {"status": "unavailable", "detail": r["error"]}
    o = r["out"]
    if o is None:
        return {"status": "reproduced", "detail": f"crash: {r['stderr_tail'][-200:]}"}
    if not (o["second_lookup_same"] and o["after_init_bean_same"]):
        return {"status": "reproduced", "out": o, "detail": "a later lookup returned a different instance than the one created first (sequential lookups / init_bean on an existing name)"}
    return {"status": "not_reproduced", "out": o, "detail": "sequential lookups return one instance"}


@replayer("c26_names_that_differ")
def _replay_c26_names(prop, harness, rec):
    pos = _int(rec, 0, signed=False)
    if pos is None or pos >= 40:
        pos = 39
    r = run_case(["beans_names", 40, pos], 30)
    if "error" in r:
        return {"status": "unavailable", "detail": r["error"]}
    o = r["out"]
    if o is None:
        return {"status": "reproduced", "detail": f"crash: {r['stderr_tail'][-200:]}"}
    if not (o["different_instances"] and o["stable"]):
        return {"status": "reproduced", "out": o, "detail": f"two 40-byte names that differ only at byte {pos} were given the same instance"}
    return {"status": "not_reproduced", "out": o, "detail": "different names gave different instances"}


@replayer("c26_")
def _replay_c26(prop, harness, rec):
    r = run_case(["beans_race", 600, 8] + (["mut"] if "_mut_" in harness else []), 180)
    if "error" in r:
        return {"status": "unavailable", "detail": r["error"]}
    o = r["out"]
    if o is None:
        return {"status": "unavailable", "detail": f"native case crashed: {r['stderr_tail'][-200:]}"}
    if o["diverging_rounds"] > 0:
        return {"status": "reproduced", "out": o,
                "detail": f"{o['diverging_rounds']} of {o['rounds']} rounds: 8 threads released together by a barrier did not all receive the instance a later lookup returns"}
    return {"status": "not_reproduced", "out": o, "detail": "all threads received the same instance in every round (the race is probabilistic)"}


@replayer("c02_result_reaches")
def _replay_c02_cross(prop, harness, rec):
    r = run_case(["join_cross_loop", 8], 60)
    if "error" in r:
        return {"status": "unavailable", "detail": r["error"]}
    o = r["out"]
    if o is None:
        return {"status": "unavailable", "detail": f"native case crashed: {r['stderr_tail'][-200:]}"}
    bad = [t for t in o["tasks"] if t["ran"] and t["join"] == "timeout"]
    if bad:
        return {"status": "reproduced", "out": o,
                "detail": f"{len(bad)} of {len(o['tasks'])} tasks ran (on {bad[0]['thread']}) but timeout_join(1 s) on their handles timed out: "
                          "the result is stored in the pool that ran the task, the handle asks the pool the task was submitted to"}
    return {"status": "not_reproduced", "out": o, "detail": "every join returned its task's value"}


@replayer("c02_rejoin")
def _replay_c02_rejoin(prop, harness, rec):
    r = run_case(["join_rejoin"], 60)
    if "error" in r:
        return {"status": "unavailable", "detail": r["error"]}
    o = r["out"]
    if o is None:
        return {"status": "unavailable", "detail": f"native case crashed: {r['stderr_tail'][-200:]}"}
    if not o["first_timed_out"]:
        return {"status": "unavailable", "out": o, "detail": "native scenario did not set up as intended (the first join did not time out)"}
    if not o["second_ok"] or o["second_waited_ms"] >= 1900:
        return {"status": "reproduced", "out": o,
                "detail": f"after a join that timed out, a second join (2 s limit) of the same task came back after {o['second_waited_ms']} ms "
                          f"with{'' if o['second_ok'] else 'out'} the value although the task finished ~130 ms into it"}
    return {"status": "not_reproduced", "out": o, "detail": f"the second join was woken after {o['second_waited_ms']} ms with the task's value"}


@replayer("c02_handle")
def _replay_c02_handle(prop, harness, rec):
    r = run_case(["join_poll"], 60)
    if "error" in r:
        return {"status": "unavailable", "detail": r["error"]}
    o = r["out"]
    if o is None:
        return {"status": "unavailable", "detail": f"native case crashed: {r['stderr_tail'][-200:]}"}
    if not o["zero_duration_join_ok"] or not o["expired_deadline_join_ok"]:
        return {"status": "reproduced", "out": o,
                "detail": f"the task had finished; timeout_join(ZERO) returned its value: {o['zero_duration_join_ok']}, "
                          f"timeout_at_join(expired deadline) returned its value: {o['expired_deadline_join_ok']}"}
    return {"status": "not_reproduced", "out": o, "detail": "both polls of the finished task returned its value"}


@replayer("c02_completion")
def _replay_c02_race(prop, harness, rec):
    r = run_case(["join_race", 3000, 300], 600)
    if "error" in r:
        return {"status": "unavailable", "detail": r["error"]}
    o = r["out"]
    if o is None:
        return {"status": "unavailable", "detail": f"native case crashed: {r['stderr_tail'][-200:]}"}
    if o["joins_that_waited_the_whole_timeout"] or o["joins_without_the_result"]:
        return {"status": "reproduced", "out": o,
                "detail": f"{o['joins_that_waited_the_whole_timeout']} of {o['tasks']} joins slept their whole {o['timeout_ms']} ms timeout although the task had run"}
    return {"status": "unavailable", "out": o, "detail": "the interleaving did not occur in 3000 native joins (probabilistic); solver counterexample only"}


@replayer("c13_cancel_then_drop")
def _replay_c13_drop(prop, harness, rec):
    r = run_case(["pool_cancel", "drop"], 60)
    if "error" in r:
        return {"status": "unavailable", "detail": r["error"]}
    o = r["out"]
    if o is None:
        return {"status": "unavailable", "detail": f"native case crashed: {r['stderr_tail'][-200:]}"}
    ran = o["cancelled_then_handle_dropped"]["ran"]
    st = "reproduced" if ran else "not_reproduced"
    return {"status": st, "out": o,
            "detail": f"a queued task was cancelled, its handle dropped (clean_task_result), then the pool scheduled: the task body ran {ran} time(s)"}


@replayer("c13_waiter_of_a_cancelled_task")
def _replay_c13_waiter(prop, harness, rec):
    r = run_case(["pool_cancel", 1], 30)
    if "error" in r:
        return {"status": "unavailable", "detail": r["error"]}
    o = r["out"]
    if o is None:
        return {"status": "unavailable", "detail": f"native case gave no output (rc={r['rc']}, timed_out={r['timed_out']})"}
    c = o["cancelled_before_start"]
    if c["ran"] == 0 and c["waiter"] == "timeout":
        return {"status": "reproduced", "out": o, "detail": f"task cancelled before it started (never ran); its waiter slept its whole {c['waited_ms']} ms timeout and got no answer"}
    return {"status": "not_reproduced", "out": o, "detail": "the waiter was answered"}


@replayer("c12_stop_settles_a_waiter_that_polls")
@replayer("c12_stop_of_a_stopped_pool")
def _replay_c12_polls(prop, harness, rec):
    r = run_case(["pool_cancel", "late" if "stopped_pool" in harness else "polls"], 30)
    if "error" in r:
        return {"status": "unavailable", "detail": r["error"]}
    if r["timed_out"]:
        return {"status": "reproduced", "detail": "stop() with a waiter registration left never returned (30 s watchdog)"}
    o = r["out"]
    if o is None:
        return {"status": "unavailable", "detail": f"native case gave no output (rc={r['rc']})"}
    if not o["first_timed_out"]:
        return {"status": "unavailable", "out": o, "detail": "native scenario did not set up as intended"}
    if o["second_poll"] != "error":
        return {"status": "reproduced", "out": o,
                "detail": f"a waiter polled (timed out), the pool was stopped, the waiter polled again: it got '{o['second_poll']}' after "
                          f"{o['second_waited_ms']} ms instead of the stop error"}
    return {"status": "not_reproduced", "out": o, "detail": "the second poll returned the stop error at once"}


@replayer("c13_cancel_first_queued_task")
@replayer("c13_cancel_second_queued_task")
@replayer("c13_late_waiter")
def _replay_c13_two(prop, harness, rec):
    which = 0 if "first" in harness else 1
    r = run_case(["pool_cancel", "two", which], 30)
    if "error" in r:
        return {"status": "unavailable", "detail": r["error"]}
    o = r["out"]
    if o is None:
        return {"status": "unavailable", "detail": f"native case gave no output (rc={r['rc']}, timed_out={r['timed_out']})"}
    c_ran, o_ran = (o["first_ran"], o["second_ran"]) if which == 0 else (o["second_ran"], o["first_ran"])
    bad = []
    if c_ran != 0:
        bad.append(f"the cancelled task ran {c_ran} time(s)")
    if o_ran != 1:
        bad.append(f"the other task ran {o_ran} time(s)")
    if o["late_waiter_of_cancelled"] != "error":
        bad.append(f"a late waiter of the cancelled task got '{o['late_waiter_of_cancelled']}' after {o['late_waited_ms']} ms")
    if o["waiter_of_other"] != "value":
        bad.append(f"the other task's waiter got '{o['waiter_of_other']}'")
    if bad:
        return {"status": "reproduced", "out": o, "detail": "two queued tasks, one cancelled before it started: " + "; ".join(bad)}
    return {"status": "not_reproduced", "out": o, "detail": "cancelled task never ran, the other ran once, both waiters answered"}


@replayer("c13_repeated_cancel")
def _replay_c13_again(prop, harness, rec):
    r = run_case(["pool_cancel", "again"], 30)
    if "error" in r:
        return {"status": "unavailable", "detail": r["error"]}
    o = r["out"]
    if o is None:
        return {"status": "unavailable", "detail": f"native case gave no output (rc={r['rc']}, timed_out={r['timed_out']})"}
    if o["cancelled_ran"] != 0 or o["other_task_finished"] != 1:
        return {"status": "reproduced", "out": o,
                "detail": f"the cancelled task was discarded and cancelled a second time while the worker had moved on to another (suspended) task: "
                          f"that other task finished {o['other_task_finished']} time(s), the cancelled one ran {o['cancelled_ran']} time(s)"}
    return {"status": "not_reproduced", "out": o, "detail": "the other task finished, the cancelled one never ran"}


@replayer("c12_stop_settles_waiters")
def _replay_c12_settle(prop, harness, rec):
    r = run_case(["pool_cancel", "stop"], 15)
    if "error" in r:
        return {"status": "unavailable", "detail": r["error"]}
    if r["timed_out"]:
        return {"status": "reproduced", "detail": "CoroutinePool::stop() with a waiter registration left never returns (15 s watchdog): do_clean iterates `waits` and "
                "notify() removes from the same map shard - self-deadlock"}
    o = r["out"]
    if o is None:
        return {"status": "reproduced", "detail": f"stop() crashed: {r['stderr_tail'][-200:]}"}
    return {"status": "not_reproduced", "out": o, "detail": "stop() returned"}


@replayer("c09_step_delay_in_syscall_state")
@replayer("c09_step_cancel_in_syscall_state")
@replayer("c09_step_cancel_while_parked")
@replayer("c09_syscall_state_requests")
def _replay_c09_syscall_state(prop, harness, rec):
    tried = []
    for kind in (["parked"] if "parked" in harness else ["cancel"] if "cancel" in harness else ["delay"]) + (["delay", "cancel", "parked"] if "requests" in harness else []):
        r = run_case(["co_leak", kind, 4242], 20)
        if "error" in r:
            return {"status": "unavailable", "detail": r["error"]}
        o = r["out"]
        tried.append({"kind": kind, "out": o})
        if o is None:
            return {"status": "unavailable", "detail": f"native case crashed: {r['stderr_tail'][-200:]}"}
        if not o["b_plain_suspend_reported_correctly"]:
            return {"status": "reproduced", "tried": tried,
                    "detail": f"coroutine A made a {'cancel' if kind == 'parked' else kind} request while {'parked ' if kind == 'parked' else ''}in a system-call state ({o['a_reports']}); the next coroutine's plain suspend on the same thread was reported as {o['b_reports']}"}
    return {"status": "not_reproduced", "tried": tried, "detail": "the following coroutine's plain suspend was reported as Suspend((), 0)"}
