"""Native replay of solver counterexamples against the real /repo build (real dependencies).

`try_replay(prop, harness, record)` returns {"status": "reproduced" | "not_reproduced" | "unavailable", ...}.
A replayer exists per harness family; where none exists the counterexample is reported as found by
the solver (status "unavailable") - the evidence says so.
"""
import json
import os
import subprocess

VERIF = os.path.dirname(os.path.dirname(os.path.abspath(__file__)))
REPLAYERS = {}


def replayer(prefix):
    def deco(f):
        REPLAYERS[prefix] = f
        return f
    return deco


def try_replay(prop, harness, record):
    for prefix, f in REPLAYERS.items():
        if harness.startswith(prefix):
            try:
                return f(prop, harness, record)
            except Exception as e:  # pragma: no cover
                return {"status": "unavailable", "detail": f"replayer crashed: {e}"}
    return {"status": "unavailable", "detail": "no native replayer for this harness; solver counterexample only"}


def replay_file(prop, path):
    rec = json.load(open(path))
    v = try_replay(prop, rec["harness"], rec)
    print(json.dumps(v, indent=1))
    if v.get("status") == "reproduced":
        print(f"VIOLATION property={prop} replay={path}")
        return 1
    return 0 if v.get("status") == "not_reproduced" else 2
