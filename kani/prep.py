"""Build the scratch tree that `cargo kani` verifies (DESIGN §2.1-§2.4).

The scratch tree is a *copy of /repo's current working tree* (core/ only is compiled) with
  * the environment substitutions E1..E7 applied by exact, counted textual rewrites,
  * one `#[cfg(kani)] #[path = ...] mod ...;` line appended per mounted harness,
  * a `[patch.crates-io]` section pointing third-party crates at /verif/kani/models.
Nothing else is changed.  Any rewrite whose pattern count is not the expected one raises
`InfraError` (exit 2), never a silent pass.
"""
import os
import re
import shutil
import subprocess
import tempfile

VERIF = os.path.dirname(os.path.dirname(os.path.abspath(__file__)))
REPO = os.environ.get("VERIF_REPO", "/repo")
MODELS = os.path.join(VERIF, "kani", "models")
HARNESS = os.path.join(VERIF, "kani", "harness")
ENVMOD = os.path.join(VERIF, "kani", "env", "verif_env.rs")

MODEL_CRATES = [
    "st3", "crossbeam-deque", "crossbeam-skiplist", "dashmap", "once_cell", "rand",
    "mio", "corosensei", "uuid", "psm",
]


class InfraError(Exception):
    pass


def _read(p):
    with open(p, encoding="utf-8") as f:
        return f.read()


def _write(p, s):
    with open(p, "w", encoding="utf-8") as f:
        f.write(s)


def _sub(path, pattern, repl, expect=None, min_count=1, regex=False):
    """Replace and insist on the number of occurrences."""
    s = _read(path)
    if regex:
        new, n = re.subn(pattern, repl, s)
    else:
        n = s.count(pattern)
        new = s.replace(pattern, repl)
    if expect is not None and n != expect:
        raise InfraError(f"substitution in {path}: pattern {pattern!r} found {n} times, expected {expect}")
    if expect is None and n < min_count:
        raise InfraError(f"substitution in {path}: pattern {pattern!r} found {n} times, expected >= {min_count}")
    _write(path, new)
    return n


def make_scratch(mounts, atomics_files=(), extra_subs=(), tmp_root=None):
    """mounts: list of (harness_file_name, repo_relative_target_file).
    atomics_files: repo-relative files in which std atomics are replaced by the yielding model (E5).
    Returns (scratch_dir, applied) where applied lists every rewrite done."""
    tmp_root = tmp_root or os.environ.get("VERIF_TMP") or tempfile.gettempdir()
    scratch = tempfile.mkdtemp(prefix="ocv-", dir=tmp_root)
    applied = []
    try:
        # Cargo.lock: keep every pin except the crates replaced by model crates (their lock entries
        # would make cargo ignore the [patch] section).
        lock = _read(os.path.join(REPO, "Cargo.lock"))
        blocks = lock.split("\n[[package]]\n")
        kept = [blocks[0]]
        dropped = 0
        for b in blocks[1:]:
            m = re.match(r'name = "([^"]+)"', b)
            if m and m.group(1) in MODEL_CRATES:
                dropped += 1
                continue
            kept.append(b)
        if dropped < len(MODEL_CRATES):
            raise InfraError(f"Cargo.lock: expected lock entries for all model crates, dropped {dropped}")
        _write(os.path.join(scratch, "Cargo.lock"), "\n[[package]]\n".join(kept))
        shutil.copytree(
            os.path.join(REPO, "core"), os.path.join(scratch, "core"),
            ignore=shutil.ignore_patterns("target", "*.log"))
        # workspace manifest: only `core`, same [workspace.dependencies], plus the patch section
        ws = _read(os.path.join(REPO, "Cargo.toml"))
        ws, n = re.subn(r"members\s*=\s*\[[^\]]*\]", 'members = ["core"]', ws, count=1)
        if n != 1:
            raise InfraError("workspace members list not found in /repo/Cargo.toml")
        ws = "\n".join(
            l for l in ws.splitlines()
            if not re.match(r"\s*open-coroutine-(hook|macros)\s*=", l)) + "\n"
        ws += "\n[patch.crates-io]\n"
        for c in MODEL_CRATES:
            ws += f'{c} = {{ path = "{MODELS}/{c}" }}\n'
        _write(os.path.join(scratch, "Cargo.toml"), ws)
        core = os.path.join(scratch, "core")
        # core/Cargo.toml: add verif-rt
        ct = _read(os.path.join(core, "Cargo.toml"))
        if "[dependencies]" not in ct:
            raise InfraError("core/Cargo.toml has no [dependencies]")
        ct = ct.replace("[dependencies]", f'[dependencies]\nverif-rt = {{ path = "{MODELS}/verif-rt" }}', 1)
        _write(os.path.join(core, "Cargo.toml"), ct)

        src = os.path.join(core, "src")
        # inject env module at the end of lib.rs
        lib = os.path.join(src, "lib.rs")
        _write(lib, _read(lib) + "\n" + _read(ENVMOD))
        applied.append("inject verif_env into lib.rs")

        # E1 thread_local!
        for rel, cnt in (("common/macros.rs", 1), ("coroutine/suspender.rs", 1),
                         ("coroutine/korosensei.rs", 1)):
            p = os.path.join(src, rel)
            n = _sub(p, r"(?m)^(\s*)thread_local!\s*\{", r"\1$crate::verif_thread_local! {"
                     if rel == "common/macros.rs" else r"\1crate::verif_thread_local! {",
                     expect=cnt, regex=True)
            applied.append(f"E1 {rel} x{n}")
        # E2 thread::current()
        for rel in ("common/macros.rs", "coroutine/suspender.rs", "scheduler.rs", "co_pool/mod.rs"):
            p = os.path.join(src, rel)
            repl = "$crate::verif_env::thread_current()" if rel == "common/macros.rs" \
                else "crate::verif_env::thread_current()"
            n = _sub(p, "std::thread::current()", repl, min_count=1)
            applied.append(f"E2 {rel} x{n}")
        # E9 crossbeam AtomicCell (raw-pointer holder only) -> plain UnsafeCell wrapper
        for rel, pat, repl, cnt in (
                ("common/macros.rs", "crossbeam_utils::atomic::AtomicCell", "$crate::verif_env::VCell", 2),
                ("coroutine/suspender.rs", "crossbeam_utils::atomic::AtomicCell", "crate::verif_env::VCell", 4),
                ("net/selector/mio_adapter.rs", "use crossbeam_utils::atomic::AtomicCell;", "use crate::verif_env::VCell as AtomicCell;", 1)):
            n = _sub(os.path.join(src, rel), pat, repl, expect=cnt)
            applied.append(f"E9 {rel} x{n}")
        # E4 catch_unwind
        n = _sub(os.path.join(src, "common/macros.rs"), "std::panic::catch_unwind(",
                 "$crate::verif_env::catch_unwind(", expect=1)
        applied.append(f"E4 common/macros.rs x{n}")
        # E7 Suspender::cancel never returns in reality; the model's switch does.
        p = os.path.join(src, "coroutine/suspender.rs")
        _sub(p, "pub fn cancel(&self) -> ! {", "pub fn cancel(&self) {", expect=1)
        _sub(p, "unreachable!()", "crate::verif_env::after_cancel_switch()", expect=1)
        applied.append("E7 coroutine/suspender.rs cancel() tail")
        # E8 signal handler installation (sigaction/sigset FFI) is environment: skipped
        _sub(os.path.join(src, "coroutine/korosensei.rs"), "    fn setup_trap_handler() {",
             "    fn setup_trap_handler() {\n        #[cfg(kani)]\n        return;", expect=1)
        _sub(os.path.join(src, "coroutine/mod.rs"), "    fn setup_sigvtalrm_handler() {",
             "    fn setup_sigvtalrm_handler() {\n        #[cfg(kani)]\n        return;", expect=1)
        applied.append("E8 skip setup_trap_handler / setup_sigvtalrm_handler (signal handler installation)")
        # E11 zero-initialised function-local atomics (constant/static aliasing in Kani 0.68, see verif_env.rs)
        for rel, cnt in (("common/mod.rs", 2), ("common/beans.rs", 1)):
            if rel in atomics_files:
                continue  # E5 replaces the type there (tagged Cell-backed model)
            n = _sub(os.path.join(src, rel), ": AtomicUsize = AtomicUsize::new(0);",
                     ": crate::verif_env::TaggedAtomicUsize = crate::verif_env::TaggedAtomicUsize::new(0);", expect=cnt)
            applied.append(f"E11 {rel} x{n}")
        # E5 atomics (only for the concurrency harnesses)
        for rel in atomics_files:
            p = os.path.join(src, rel)
            n = _sub(p, "std::sync::atomic::", "crate::verif_env::atomic::", min_count=1)
            applied.append(f"E5 {rel} x{n}")
        for rel, pat, repl, cnt in extra_subs:
            n = _sub(os.path.join(src, rel), pat, repl, expect=cnt)
            applied.append(f"extra {rel} {pat!r} x{n}")
        # mounts
        for hfile, target in mounts:
            hp = os.path.join(HARNESS, hfile)
            if not os.path.isfile(hp):
                raise InfraError(f"harness file missing: {hp}")
            tp = os.path.join(src, target)
            if not os.path.isfile(tp):
                raise InfraError(f"mount target missing in /repo: core/src/{target}")
            modname = "verif_" + os.path.splitext(hfile)[0]
            _write(tp, _read(tp) + f'\n#[cfg(kani)]\n#[path = "{hp}"]\npub(crate) mod {modname};\n')
            applied.append(f"mount {hfile} under {target}")
        return scratch, applied
    except Exception:
        shutil.rmtree(scratch, ignore_errors=True)
        raise


def repo_fingerprint():
    """git HEAD + dirty diff hash of /repo, recorded in evidence."""
    try:
        head = subprocess.run(["git", "-C", REPO, "rev-parse", "HEAD"], capture_output=True,
                              text=True, timeout=20).stdout.strip()
        diff = subprocess.run(["git", "-C", REPO, "diff", "HEAD", "--", "core"], capture_output=True,
                              text=True, timeout=20).stdout
        import hashlib
        return {"head": head, "dirty": bool(diff.strip()),
                "diff_sha1": hashlib.sha1(diff.encode()).hexdigest()[:12]}
    except Exception as e:  # pragma: no cover
        return {"head": "unknown", "error": str(e)}
