// C28 - socket time limit conversion (mounted under core/src/syscall/unix/mod.rs).
use super::*;

/// get_time_limit for every non-negative timeval: 0 means unlimited (u64::MAX); otherwise the
/// value is the saturated nanosecond count, never wrapping and never 0.
#[kani::proof]
fn c28_time_limit_all_timeval() {
    let sec: libc::time_t = kani::any();
    let usec: libc::suseconds_t = kani::any();
    kani::assume(sec >= 0 && usec >= 0);
    let tv = libc::timeval { tv_sec: sec, tv_usec: usec };
    let got = get_time_limit(&tv);
    let total: u128 = (sec as u128) * 1_000_000_000u128 + (usec as u128) * 1_000u128;
    let want = if total == 0 || total > u64::MAX as u128 { u64::MAX } else { total as u64 };
    assert!(got == want, "limit is the saturated ns value, 0 => unlimited");
    assert!(got != 0, "a limit of zero must never be produced");
    kani::cover!(sec == 0 && usec == 0, "zero timeval");
    kani::cover!(total > u64::MAX as u128, "saturating timeval");
    kani::cover!(got < u64::MAX, "finite limit");
}
