// C04 / C06 (ordered queue, sequential histories with a sibling steal) - mounted under
// core/src/common/ordered_work_steal.rs.
//
// Real code: OrderedLocalQueue::{push_with_priority, push_to_global, pop, pop_local, local_len, can_steal, max_steal},
// OrderedWorkStealQueue::{push_with_priority, pop} over the st3 / skip-list / injector / rand model crates.
// History shape (DESIGN 2.6-2, every model of the formula is a real single-threaded history of two local handles):
//     push(l0)^a ; pop(l1) ; push(l0)^b ; pop(l1) ; push(l0)^c ; pop(l0)^d ; pop(l0)
// with symbolic counts, one symbolic priority, local capacity 2. `pop(l1)` on an empty l1 steals from l0.
// C04: every operation returns (the unwinding assertions ARE the property here: unwind 4 is above every loop bound the
//      code has when its counters are right: <= 2 local queues, <= 1 key, <= capacity/2 + 1 half-move rounds).
// C06: an idle local queue (l0 empty) whose sibling or the shared queue holds work does not report empty.
// C03 (sequential part): nothing is lost or duplicated - items still queued + items popped == items pushed.
use super::*;

const CAP: usize = 2;

fn occ(q: &SkipMap<c_longlong, Worker<u8>>) -> usize {
    let mut n = 0;
    for e in q {
        n += e.value().capacity() - e.value().spare_capacity();
    }
    n
}

/// The counts are CONCRETE per harness (exhaustive case split over (a, b, c) in {0,1,2}^3, DESIGN 2.6-3): with symbolic counts
/// the query died at 40 GB without a verdict. What stays symbolic in every instance: the priority (any i64), the steal start
/// index (rand model) and the number d of final pops.
fn history(a: usize, b: usize, c: usize, with_final_pops: bool) {
    let q: OrderedWorkStealQueue<u8> = OrderedWorkStealQueue::new(2, CAP);
    let l0 = q.local_queue();
    let l1 = q.local_queue();
    let prio: c_longlong = kani::any();
    let d: usize = if with_final_pops { kani::any() } else { 0 };
    kani::assume(d <= CAP);
    let mut pushed = 0usize;
    let mut popped = 0usize;
    // (phases written out, no harness loop: these harnesses run at unwind 4, which every loop of the code under test respects
    // when its counters are right - <= 2 local queues, <= 1 key, <= capacity/2 + 1 half-move rounds)
    let mut push_n = |n: usize, pushed: &mut usize| {
        if n >= 1 {
            l0.push_with_priority(prio, *pushed as u8);
            *pushed += 1;
        }
        if n >= 2 {
            l0.push_with_priority(prio, *pushed as u8);
            *pushed += 1;
        }
    };
    push_n(a, &mut pushed);
    if l1.pop().is_some() {
        popped += 1;
    }
    push_n(b, &mut pushed);
    if l1.pop().is_some() {
        popped += 1;
    }
    push_n(c, &mut pushed);
    let held = || occ(l0.queue) + occ(l1.queue) + q.len();
    kani::assert(held() + popped == pushed, "no item is lost or duplicated: queued + popped == pushed");
    if with_final_pops {
        if d >= 1 && l0.pop().is_some() {
            popped += 1;
        }
        if d >= 2 && l0.pop().is_some() {
            popped += 1;
        }
        let before = held();
        let got = l0.pop();
        if got.is_some() {
            popped += 1;
        }
        kani::assert(got.is_some() || before == 0, "an idle local queue obtains work waiting in a sibling or in the shared queue rather than reporting empty");
        kani::assert(held() + popped == pushed, "no item is lost or duplicated after the pops");
    }
    kani::cover!(true, "reached");
    // drain without running the queues' emptiness assertions
    core::mem::forget(l0);
    core::mem::forget(l1);
    core::mem::forget(q);
}

macro_rules! ows_case {
    ($c04:ident, $c06:ident, $a:expr, $b:expr, $c:expr) => {
        /// C04: every operation of the history returns.
        #[kani::proof]
        #[kani::unwind(4)]
        fn $c04() {
            history($a, $b, $c, false);
        }
        /// C06 + C03: the victim of a steal, once idle, still finds the work that is waiting elsewhere; nothing is lost.
        #[kani::proof]
        #[kani::unwind(4)]
        fn $c06() {
            history($a, $b, $c, true);
        }
    };
}

ows_case!(c04_ows_history_000_terminates, c06_ows_history_000_idle_victim_finds_work, 0, 0, 0);
ows_case!(c04_ows_history_001_terminates, c06_ows_history_001_idle_victim_finds_work, 0, 0, 1);
ows_case!(c04_ows_history_002_terminates, c06_ows_history_002_idle_victim_finds_work, 0, 0, 2);
ows_case!(c04_ows_history_010_terminates, c06_ows_history_010_idle_victim_finds_work, 0, 1, 0);
ows_case!(c04_ows_history_011_terminates, c06_ows_history_011_idle_victim_finds_work, 0, 1, 1);
ows_case!(c04_ows_history_012_terminates, c06_ows_history_012_idle_victim_finds_work, 0, 1, 2);
ows_case!(c04_ows_history_020_terminates, c06_ows_history_020_idle_victim_finds_work, 0, 2, 0);
ows_case!(c04_ows_history_021_terminates, c06_ows_history_021_idle_victim_finds_work, 0, 2, 1);
ows_case!(c04_ows_history_022_terminates, c06_ows_history_022_idle_victim_finds_work, 0, 2, 2);
ows_case!(c04_ows_history_100_terminates, c06_ows_history_100_idle_victim_finds_work, 1, 0, 0);
ows_case!(c04_ows_history_101_terminates, c06_ows_history_101_idle_victim_finds_work, 1, 0, 1);
ows_case!(c04_ows_history_102_terminates, c06_ows_history_102_idle_victim_finds_work, 1, 0, 2);
ows_case!(c04_ows_history_110_terminates, c06_ows_history_110_idle_victim_finds_work, 1, 1, 0);
ows_case!(c04_ows_history_111_terminates, c06_ows_history_111_idle_victim_finds_work, 1, 1, 1);
ows_case!(c04_ows_history_112_terminates, c06_ows_history_112_idle_victim_finds_work, 1, 1, 2);
ows_case!(c04_ows_history_120_terminates, c06_ows_history_120_idle_victim_finds_work, 1, 2, 0);
ows_case!(c04_ows_history_121_terminates, c06_ows_history_121_idle_victim_finds_work, 1, 2, 1);
ows_case!(c04_ows_history_122_terminates, c06_ows_history_122_idle_victim_finds_work, 1, 2, 2);
ows_case!(c04_ows_history_200_terminates, c06_ows_history_200_idle_victim_finds_work, 2, 0, 0);
ows_case!(c04_ows_history_201_terminates, c06_ows_history_201_idle_victim_finds_work, 2, 0, 1);
ows_case!(c04_ows_history_202_terminates, c06_ows_history_202_idle_victim_finds_work, 2, 0, 2);
ows_case!(c04_ows_history_210_terminates, c06_ows_history_210_idle_victim_finds_work, 2, 1, 0);
ows_case!(c04_ows_history_211_terminates, c06_ows_history_211_idle_victim_finds_work, 2, 1, 1);
ows_case!(c04_ows_history_212_terminates, c06_ows_history_212_idle_victim_finds_work, 2, 1, 2);
ows_case!(c04_ows_history_220_terminates, c06_ows_history_220_idle_victim_finds_work, 2, 2, 0);
ows_case!(c04_ows_history_221_terminates, c06_ows_history_221_idle_victim_finds_work, 2, 2, 1);
ows_case!(c04_ows_history_222_terminates, c06_ows_history_222_idle_victim_finds_work, 2, 2, 2);
