// C16 / C17 / C18 - hooked socket I/O (mounted under core/src/syscall/unix/mod.rs).
//
// The real Facade -> Nio -> Raw chains are entered through the public `syscall::<name>(Some(&mock), ..)`.
// The mock is a scripted kernel: per call it either moves n >= 1 bytes (at most what it is offered)
// of a symbolic stream, or reports EOF, or fails with EAGAIN / EINTR / ECONNRESET. It checks *at the
// moment of each call* that what it is handed is exactly the caller's not-yet-transferred range.
// NOTE on statics: Kani 0.68 resolves a constant allocation (e.g. the zero capacity `Vec::new()` reads)
// to an already code-generated static of the same crate with identical initial bytes, so a
// `static mut X: usize = 0` can alias that constant. Every static here therefore has a distinctive
// non-zero initial value and is explicitly (re)initialised by any_script()/run_*().
// Environment stubs: fd mode (is_blocking / set_blocking / set_non_blocking keep a flag and count
// calls), is_socket = true, time limit in {unlimited, 15 ms}, virtual clock, wait_*_event = "the
// slice elapses" with a symbolic Ok/Err result.
use super::*;
use std::ffi::c_void;
use std::time::Duration;

pub(super) const K: usize = 3; // scripted kernel responses; afterwards the peer resets the connection
pub(super) const MAXLEN: usize = 4;

#[derive(Copy, Clone)]
pub(super) struct Resp {
    pub kind: u8, // 0 data(n) 1 EAGAIN 2 EINTR 3 ECONNRESET 4 EOF
    pub n: usize,
}

pub(super) static mut SCRIPT: [Resp; K] = [Resp { kind: 3, n: 0 }; K];
pub(super) static mut CALLS: usize = 0x51;
pub(super) static mut STREAM: [u8; 8] = [0x5b; 8];
pub(super) static mut SINK: [u8; 8] = [0x5c; 8];
pub(super) static mut MOVED: usize = 0x52;
pub(super) static mut LAST_ERRNO: c_int = 0x53;
pub(super) static mut RANGE_OK: bool = true; // every call described exactly the unfilled range
pub(super) static mut FIRST_KIND: u8 = 0x54;
pub(super) static mut SCRIPT_LEN: usize = K; // responses taken from the script before the peer resets

// ---- environment model
pub(super) static mut VNOW: u64 = 1_000;
pub(super) static mut BLOCKING: bool = true;
pub(super) static mut MODE_CALLS: u32 = 0x55;
pub(super) static mut LIMIT: u64 = u64::MAX;
pub(super) static mut WAITS: u32 = 0x56;
pub(super) static mut WAIT_FAILS_AT: u32 = u32::MAX;
pub(super) static mut WAIT_FD_OK: bool = true;
pub(super) const FD: c_int = 7;

pub(super) fn vnow() -> u64 {
    unsafe { VNOW }
}
pub(super) extern "C" fn s_is_socket(_fd: c_int) -> bool {
    true
}
pub(super) extern "C" fn s_is_blocking(_fd: c_int) -> bool {
    unsafe { BLOCKING }
}
pub(super) extern "C" fn s_set_blocking(_fd: c_int) {
    unsafe {
        MODE_CALLS += 1;
        BLOCKING = true;
    }
}
pub(super) extern "C" fn s_set_non_blocking(_fd: c_int) {
    unsafe {
        MODE_CALLS += 1;
        BLOCKING = false;
    }
}
pub(super) extern "C" fn s_time_limit(_fd: c_int) -> u64 {
    unsafe { LIMIT }
}
pub(super) fn s_wait_event(fd: c_int, timeout: Option<Duration>) -> std::io::Result<()> {
    unsafe {
        if fd != FD {
            WAIT_FD_OK = false;
        }
        let i = WAITS;
        WAITS += 1;
        if let Some(d) = timeout {
            // at most one SLICE (10 ms); concrete per path, so no symbolic division
            VNOW = VNOW.saturating_add(d.as_secs() * 1_000_000_000 + u64::from(d.subsec_nanos()));
        }
        if i == WAIT_FAILS_AT {
            return Err(std::io::Error::from_raw_os_error(libc::EBADF));
        }
    }
    Ok(())
}

pub(super) fn any_script() {
    unsafe {
        let mut i = 0;
        while i < K {
            let kind: u8 = kani::any();
            kani::assume(kind <= 4);
            let n: usize = kani::any();
            kani::assume(n >= 1 && n <= MAXLEN);
            SCRIPT[i] = Resp { kind, n };
            i += 1;
        }
        FIRST_KIND = SCRIPT[0].kind;
        SCRIPT_LEN = K;
        CALLS = 0;
        MOVED = 0;
        LAST_ERRNO = 0;
        RANGE_OK = true;
        STREAM = kani::any();
        SINK = [0; 8];
        VNOW = 1_000;
        BLOCKING = kani::any();
        MODE_CALLS = 0;
        LIMIT = if kani::any() { u64::MAX } else { 15_000_000 };
        WAITS = 0;
        WAIT_FAILS_AT = kani::any();
        WAIT_FD_OK = true;
    }
    reset_errno();
}

fn next_resp() -> Resp {
    unsafe {
        let i = CALLS;
        CALLS += 1;
        if i < SCRIPT_LEN {
            SCRIPT[i]
        } else {
            Resp { kind: 3, n: 0 }
        }
    }
}

fn fail(errno: c_int) -> libc::ssize_t {
    unsafe { LAST_ERRNO = errno };
    set_errno(errno);
    -1
}

/// Kernel side of a read-like call on one contiguous buffer.
pub(super) unsafe fn kernel_read(buf: *mut u8, len: usize, base: *mut u8, total: usize) -> libc::ssize_t {
    // the range handed down must be exactly the unfilled suffix of the caller's buffer
    if buf as usize != base as usize + MOVED || len != total - MOVED {
        RANGE_OK = false;
    }
    let r = next_resp();
    match r.kind {
        0 => {
            let n = if r.n < len { r.n } else { len };
            let mut i = 0;
            while i < n {
                *buf.add(i) = STREAM[MOVED + i];
                i += 1;
            }
            MOVED += n;
            n as libc::ssize_t
        }
        1 => fail(libc::EAGAIN),
        2 => fail(libc::EINTR),
        3 => fail(libc::ECONNRESET),
        _ => 0,
    }
}

/// Kernel side of a write-like call on one contiguous buffer.
pub(super) unsafe fn kernel_write(buf: *const u8, len: usize, base: *const u8, total: usize) -> libc::ssize_t {
    if buf as usize != base as usize + MOVED || len != total - MOVED {
        RANGE_OK = false;
    }
    let r = next_resp();
    match r.kind {
        0 | 4 => {
            let n = if r.n < len { r.n } else { len };
            let mut i = 0;
            while i < n {
                SINK[MOVED + i] = *buf.add(i);
                i += 1;
            }
            MOVED += n;
            n as libc::ssize_t
        }
        1 => fail(libc::EAGAIN),
        2 => fail(libc::EINTR),
        _ => fail(libc::ECONNRESET),
    }
}

// caller-side description of the single buffer under test
pub(super) static mut BASE: *mut u8 = std::ptr::without_provenance_mut(0x60);
pub(super) static mut TOTAL: usize = 0x57;

extern "C" fn mock_read(_fd: c_int, buf: *mut c_void, len: libc::size_t) -> libc::ssize_t {
    unsafe { kernel_read(buf.cast(), len, BASE, TOTAL) }
}
extern "C" fn mock_recv(_fd: c_int, buf: *mut c_void, len: libc::size_t, _fl: c_int) -> libc::ssize_t {
    unsafe { kernel_read(buf.cast(), len, BASE, TOTAL) }
}
extern "C" fn mock_recvfrom(
    _fd: c_int,
    buf: *mut c_void,
    len: libc::size_t,
    _fl: c_int,
    _a: *mut libc::sockaddr,
    _l: *mut libc::socklen_t,
) -> libc::ssize_t {
    unsafe { kernel_read(buf.cast(), len, BASE, TOTAL) }
}
extern "C" fn mock_write(_fd: c_int, buf: *const c_void, len: libc::size_t) -> libc::ssize_t {
    unsafe { kernel_write(buf.cast(), len, BASE, TOTAL) }
}
extern "C" fn mock_send(_fd: c_int, buf: *const c_void, len: libc::size_t, _fl: c_int) -> libc::ssize_t {
    unsafe { kernel_write(buf.cast(), len, BASE, TOTAL) }
}
extern "C" fn mock_sendto(
    _fd: c_int,
    buf: *const c_void,
    len: libc::size_t,
    _fl: c_int,
    _a: *const libc::sockaddr,
    _l: libc::socklen_t,
) -> libc::ssize_t {
    unsafe { kernel_write(buf.cast(), len, BASE, TOTAL) }
}

#[derive(Copy, Clone, PartialEq, Eq)]
pub(super) enum Entry {
    Read,
    Recv,
    Recvfrom,
    Write,
    Send,
    Sendto,
}

pub(super) struct Outcome {
    pub r: libc::ssize_t,
    pub errno: c_int,
    pub blocking0: bool,
    pub buf: [u8; MAXLEN],
    pub len: usize,
}

/// Runs one hooked single-buffer call with a symbolic script; `len` in `min_len..=MAXLEN`.
pub(super) fn run_buf(entry: Entry, min_len: usize) -> Outcome {
    any_script();
    let len: usize = kani::any();
    kani::assume(len >= min_len && len <= MAXLEN);
    let mut buf: [u8; MAXLEN] = kani::any();
    let blocking0 = unsafe { BLOCKING };
    unsafe {
        BASE = buf.as_mut_ptr();
        TOTAL = len;
    }
    let p = buf.as_mut_ptr().cast::<c_void>();
    let r = match entry {
        Entry::Read => {
            let f: extern "C" fn(c_int, *mut c_void, libc::size_t) -> libc::ssize_t = mock_read;
            read(Some(&f), FD, p, len)
        }
        Entry::Recv => {
            let f: extern "C" fn(c_int, *mut c_void, libc::size_t, c_int) -> libc::ssize_t = mock_recv;
            recv(Some(&f), FD, p, len, 0)
        }
        Entry::Recvfrom => {
            let f: extern "C" fn(c_int, *mut c_void, libc::size_t, c_int, *mut libc::sockaddr, *mut libc::socklen_t) -> libc::ssize_t =
                mock_recvfrom;
            recvfrom(Some(&f), FD, p, len, 0, std::ptr::null_mut(), std::ptr::null_mut())
        }
        Entry::Write => {
            let f: extern "C" fn(c_int, *const c_void, libc::size_t) -> libc::ssize_t = mock_write;
            write(Some(&f), FD, p.cast_const(), len)
        }
        Entry::Send => {
            let f: extern "C" fn(c_int, *const c_void, libc::size_t, c_int) -> libc::ssize_t = mock_send;
            send(Some(&f), FD, p.cast_const(), len, 0)
        }
        Entry::Sendto => {
            let f: extern "C" fn(c_int, *const c_void, libc::size_t, c_int, *const libc::sockaddr, libc::socklen_t) -> libc::ssize_t =
                mock_sendto;
            sendto(Some(&f), FD, p.cast_const(), len, 0, std::ptr::null(), 0)
        }
    };
    Outcome { r, errno: unsafe { *errno_location() }, blocking0, buf, len }
}

/// C16 oracle for one single-buffer call.
pub(super) fn c16_buf_oracle(o: &Outcome, is_read: bool) {
    unsafe {
        kani::assert(RANGE_OK, "every kernel call got exactly the caller's not-yet-transferred range");
        if o.r >= 0 {
            kani::assert(o.r as usize == MOVED, "a non-negative return value equals the total bytes moved");
        } else {
            kani::assert(o.r == -1, "the only negative return value is -1");
            kani::assert(MOVED == 0, "-1 is returned only if no byte was moved");
            kani::assert(o.errno == LAST_ERRNO, "-1 carries the errno of the failing kernel call");
        }
        kani::assert(MOVED <= o.len, "never more bytes than requested");
        let mut i = 0;
        while i < MAXLEN {
            if i < MOVED {
                if is_read {
                    kani::assert(o.buf[i] == STREAM[i], "caller buffer holds the stream prefix in order");
                } else {
                    kani::assert(SINK[i] == o.buf[i], "peer received the caller's bytes in order");
                }
            }
            i += 1;
        }
        kani::assert(WAIT_FD_OK, "readiness is awaited on the caller's descriptor");
        kani::cover!(CALLS >= 2 && MOVED > 0 && o.r >= 0, "transfer that needed more than one kernel call");
        kani::cover!(o.r == -1 && LAST_ERRNO == libc::ECONNRESET, "hard error path");
        kani::cover!(WAITS >= 1 && o.r > 0, "would-block then data");
        kani::cover!(LIMIT != u64::MAX && WAITS >= 2, "time limit path");
    }
}

macro_rules! io_harness {
    ($name:ident, $body:expr) => {
        io_harness!($name, 7, $body);
    };
    ($name:ident, $unwind:expr, $body:expr) => {
        #[kani::proof]
        #[kani::unwind($unwind)]
        #[kani::stub(crate::common::now, vnow)]
        #[kani::stub(crate::syscall::unix::is_socket, s_is_socket)]
        #[kani::stub(crate::syscall::unix::is_blocking, s_is_blocking)]
        #[kani::stub(crate::syscall::unix::set_blocking, s_set_blocking)]
        #[kani::stub(crate::syscall::unix::set_non_blocking, s_set_non_blocking)]
        #[kani::stub(crate::syscall::unix::recv_time_limit, s_time_limit)]
        #[kani::stub(crate::syscall::unix::send_time_limit, s_time_limit)]
        #[kani::stub(crate::net::EventLoops::wait_read_event, s_wait_event)]
        #[kani::stub(crate::net::EventLoops::wait_write_event, s_wait_event)]
        fn $name() {
            $body;
            crate::verif_env::canary();
        }
    };
}
pub(super) use io_harness;

// ------------------------------------------------------------------ C16: single-buffer calls
io_harness!(c16_read, { let o = run_buf(Entry::Read, 1); c16_buf_oracle(&o, true); });
io_harness!(c16_recv, { let o = run_buf(Entry::Recv, 1); c16_buf_oracle(&o, true); });
io_harness!(c16_recvfrom, { let o = run_buf(Entry::Recvfrom, 1); c16_buf_oracle(&o, true); });
io_harness!(c16_write, { let o = run_buf(Entry::Write, 1); c16_buf_oracle(&o, false); });
io_harness!(c16_send, { let o = run_buf(Entry::Send, 1); c16_buf_oracle(&o, false); });
io_harness!(c16_sendto, { let o = run_buf(Entry::Sendto, 1); c16_buf_oracle(&o, false); });

/// A zero-length request returns 0 (one harness per direction; `len` is fixed to 0).
fn zero_len(entry: Entry) {
    any_script();
    let mut buf = [0u8; MAXLEN];
    unsafe {
        BASE = buf.as_mut_ptr();
        TOTAL = 0;
    }
    let p = buf.as_mut_ptr().cast::<c_void>();
    let r = match entry {
        Entry::Read => {
            let f: extern "C" fn(c_int, *mut c_void, libc::size_t) -> libc::ssize_t = mock_read;
            read(Some(&f), FD, p, 0)
        }
        Entry::Recv => {
            let f: extern "C" fn(c_int, *mut c_void, libc::size_t, c_int) -> libc::ssize_t = mock_recv;
            recv(Some(&f), FD, p, 0, 0)
        }
        Entry::Write => {
            let f: extern "C" fn(c_int, *const c_void, libc::size_t) -> libc::ssize_t = mock_write;
            write(Some(&f), FD, p.cast_const(), 0)
        }
        _ => {
            let f: extern "C" fn(c_int, *const c_void, libc::size_t, c_int) -> libc::ssize_t = mock_send;
            send(Some(&f), FD, p.cast_const(), 0, 0)
        }
    };
    unsafe {
        kani::assert(MOVED == 0, "nothing is moved by a zero-length request");
        // the kernel may be consulted (a zero-length recv can report a pending error) but if it
        // is not, or it reports no error, the call returns 0
        if CALLS == 0 || LAST_ERRNO == 0 {
            kani::assert(r == 0, "a zero-length request returns 0");
        }
    }
    kani::cover!(r == 0, "zero-length request returned 0");
}
io_harness!(c16_zero_len_read, { zero_len(Entry::Read) });
io_harness!(c16_zero_len_recv, { zero_len(Entry::Recv) });
io_harness!(c16_zero_len_write, { zero_len(Entry::Write) });
io_harness!(c16_zero_len_send, { zero_len(Entry::Send) });

// ------------------------------------------------------------------ C18: blocking mode
pub(super) fn c18_mode_oracle(o: &Outcome) {
    unsafe {
        kani::assert(BLOCKING == o.blocking0, "the descriptor's blocking mode is left exactly as the caller set it");
        kani::cover!(o.blocking0 && MODE_CALLS == 2, "blocking descriptor switched and restored");
        kani::cover!(!o.blocking0 && o.r == -1, "error on a non-blocking descriptor");
    }
}
pub(super) fn c18_nonblocking_oracle(o: &Outcome) {
    unsafe {
        if !o.blocking0 && FIRST_KIND == 1 {
            kani::assert(WAITS == 0, "a non-blocking descriptor that would block must not wait for readiness");
            kani::assert(o.r == -1 && o.errno == libc::EAGAIN, "a non-blocking descriptor that would block returns -1/EAGAIN at once");
        }
        kani::cover!(!o.blocking0 && FIRST_KIND == 1, "non-blocking descriptor, kernel would block");
    }
}
io_harness!(c18_mode_read, { let o = run_buf(Entry::Read, 0); c18_mode_oracle(&o); });
io_harness!(c18_mode_recv, { let o = run_buf(Entry::Recv, 0); c18_mode_oracle(&o); });
io_harness!(c18_mode_recvfrom, { let o = run_buf(Entry::Recvfrom, 0); c18_mode_oracle(&o); });
io_harness!(c18_mode_write, { let o = run_buf(Entry::Write, 0); c18_mode_oracle(&o); });
io_harness!(c18_mode_send, { let o = run_buf(Entry::Send, 0); c18_mode_oracle(&o); });
io_harness!(c18_mode_sendto, { let o = run_buf(Entry::Sendto, 0); c18_mode_oracle(&o); });
io_harness!(c18_nonblocking_read, { let o = run_buf(Entry::Read, 1); c18_nonblocking_oracle(&o); });
io_harness!(c18_nonblocking_send, { let o = run_buf(Entry::Send, 1); c18_nonblocking_oracle(&o); });

// ------------------------------------------------------------------ vectored calls (C16 + C17)
// caller iovecs: 2 in the regular build, 3 when the scratch tree is compiled with `--cfg ocv_nv3` (the `*_3iov` harnesses:
// a partial transfer can then cover two whole buffers and end inside a third, which is what exercises the rebuild's
// "skip a buffer that is already done" branch twice in a row)
#[cfg(not(ocv_nv3))]
pub(super) const NV: usize = 2;
#[cfg(ocv_nv3)]
pub(super) const NV: usize = 3;
pub(super) const VLEN: usize = 2; // bytes per caller iovec (0..=VLEN)

pub(super) static mut BUFS: [[u8; VLEN]; NV] = [[0x5a; VLEN]; NV]; // the caller's buffers
pub(super) static mut VBASE: [*mut u8; NV] = [std::ptr::without_provenance_mut(0x61); NV];
pub(super) static mut VLENS: [usize; NV] = [0x58; NV];
pub(super) static mut IOV_OK: bool = true; // C17: every request described only not-yet-transferred ranges of the caller, in order
pub(super) static mut NEXT_OK: bool = true; // C16: ... and exactly the next positions
pub(super) static mut IOV_CALLS: usize = 0x59;
pub(super) static mut COUNT_OK: bool = true; // C17: every element count matched the array that was passed

/// Kernel side of a vectored call. It reads exactly `cnt` elements of the array it is handed (an
/// over-long count is an out-of-bounds read CBMC reports) and maps every non-empty element to its
/// logical position in the caller's request (iovec j, offset off -> VLENS[0..j] + off; equality tests
/// only, no pointer ordering).
///  * IOV_OK (C17): the element lies inside one of the caller's buffers, starts at or after the first
///    byte not yet transferred, and elements come in increasing order without overlap.
///  * NEXT_OK (C16): in addition the elements are exactly the next positions (no gap), so that the bytes
///    the kernel moves land in order. Offering fewer bytes than are outstanding is allowed.
/// Bytes are moved by *logical position* - which, when NEXT_OK holds, is exactly where the handed
/// ranges point - so the bytes themselves are not copied by the model.
unsafe fn kernel_vectored(iov: *const libc::iovec, cnt: usize, is_read: bool) -> libc::ssize_t {
    IOV_CALLS += 1;
    // C17, second sentence: the element count the kernel is told must not run past the array it is handed. The array is a
    // heap allocation of exactly the rebuilt length, so "all `cnt` elements are readable" is decidable by the solver.
    // (the last element is readable iff all are: the array is one allocation; asking for the single element keeps the
    // predicate cheap - asking for the whole slice with a symbolic length ran CBMC out of memory on a mutant)
    if cnt > 0 && !kani::mem::can_dereference(iov.wrapping_add(cnt - 1)) {
        COUNT_OK = false;
        return fail(libc::EFAULT);
    }
    let mut cursor = MOVED;
    let mut offered = 0;
    let mut i = 0;
    while i < cnt {
        let e = *iov.add(i);
        if e.iov_len != 0 {
            let mut lp = usize::MAX;
            let mut start = 0;
            let mut j = 0;
            while j < NV {
                let mut off = 0;
                while off < VLEN {
                    if off < VLENS[j] && e.iov_base as usize == VBASE[j] as usize + off && off + e.iov_len <= VLENS[j] {
                        lp = start + off;
                    }
                    off += 1;
                }
                start += VLENS[j];
                j += 1;
            }
            if lp == usize::MAX {
                // not a range of the caller's buffers at all (e.g. an element read past the initialised part of the array):
                // a real kernel answers EFAULT; stop here so that the garbage values do not flow into the rest of the run
                IOV_OK = false;
                NEXT_OK = false;
                return fail(libc::EFAULT);
            }
            if lp < cursor {
                IOV_OK = false;
                NEXT_OK = false;
            } else {
                if lp != cursor {
                    NEXT_OK = false;
                }
                cursor = lp + e.iov_len;
            }
            offered += e.iov_len;
        }
        i += 1;
    }
    let r = next_resp();
    match r.kind {
        0 => {
            let n = if r.n < offered { r.n } else { offered };
            // no byte is copied: when NEXT_OK holds the handed ranges ARE the caller's next positions,
            // so placement is decided by the range comparison above (keeps the formula small)
            MOVED += n;
            n as libc::ssize_t
        }
        1 => fail(libc::EAGAIN),
        2 => fail(libc::EINTR),
        3 => fail(libc::ECONNRESET),
        _ => {
            if is_read {
                0
            } else {
                fail(libc::ECONNRESET)
            }
        }
    }
}

extern "C" fn mock_readv(_fd: c_int, iov: *const libc::iovec, cnt: c_int) -> libc::ssize_t {
    unsafe { kernel_vectored(iov, cnt as usize, true) }
}
extern "C" fn mock_writev(_fd: c_int, iov: *const libc::iovec, cnt: c_int) -> libc::ssize_t {
    unsafe { kernel_vectored(iov, cnt as usize, false) }
}
extern "C" fn mock_recvmsg(_fd: c_int, msg: *mut libc::msghdr, _fl: c_int) -> libc::ssize_t {
    unsafe { kernel_vectored((*msg).msg_iov, (*msg).msg_iovlen as usize, true) }
}
extern "C" fn mock_sendmsg(_fd: c_int, msg: *const libc::msghdr, _fl: c_int) -> libc::ssize_t {
    unsafe { kernel_vectored((*msg).msg_iov, (*msg).msg_iovlen as usize, false) }
}

#[derive(Copy, Clone, PartialEq, Eq)]
pub(super) enum VEntry {
    Readv,
    Writev,
    Recvmsg,
    Sendmsg,
}

pub(super) struct VOutcome {
    pub r: libc::ssize_t,
    pub errno: c_int,
    pub blocking0: bool,
    pub bufs: [[u8; VLEN]; NV],
    pub total: usize,
}

pub(super) fn run_vec(entry: VEntry) -> VOutcome {
    any_script();
    unsafe { SCRIPT_LEN = 2 }; // vectored calls: 2 scripted responses, then the peer resets
    unsafe { BUFS = kani::any() };
    let blocking0 = unsafe { BLOCKING };
    #[cfg(ocv_nv3)]
    unsafe {
        // 3-iovec variant: the environment is fixed to the plain case (blocking descriptor, no time limit, waits succeed);
        // mode / limit / wait-failure handling is decided by the 2-iovec harnesses
        kani::assume(BLOCKING && LIMIT == u64::MAX && WAIT_FAILS_AT == u32::MAX);
    }
    let mut iovs = [libc::iovec { iov_base: std::ptr::null_mut(), iov_len: 0 }; NV];
    let mut total = 0;
    let mut j = 0;
    while j < NV {
        let l: usize = kani::any();
        kani::assume(l <= VLEN);
        unsafe {
            VBASE[j] = (&raw mut BUFS[j]).cast::<u8>();
            VLENS[j] = l;
            iovs[j] = libc::iovec { iov_base: VBASE[j].cast(), iov_len: l };
        }
        total += l;
        j += 1;
    }
    unsafe {
        IOV_OK = true;
        NEXT_OK = true;
        IOV_CALLS = 0;
        COUNT_OK = true;
    }
    let r = match entry {
        VEntry::Readv => {
            let f: extern "C" fn(c_int, *const libc::iovec, c_int) -> libc::ssize_t = mock_readv;
            readv(Some(&f), FD, iovs.as_ptr(), NV as c_int)
        }
        VEntry::Writev => {
            let f: extern "C" fn(c_int, *const libc::iovec, c_int) -> libc::ssize_t = mock_writev;
            writev(Some(&f), FD, iovs.as_ptr(), NV as c_int)
        }
        VEntry::Recvmsg => {
            let f: extern "C" fn(c_int, *mut libc::msghdr, c_int) -> libc::ssize_t = mock_recvmsg;
            let mut m: libc::msghdr = unsafe { std::mem::zeroed() };
            m.msg_iov = iovs.as_mut_ptr();
            m.msg_iovlen = NV;
            recvmsg(Some(&f), FD, &raw mut m, 0)
        }
        VEntry::Sendmsg => {
            let f: extern "C" fn(c_int, *const libc::msghdr, c_int) -> libc::ssize_t = mock_sendmsg;
            let mut m: libc::msghdr = unsafe { std::mem::zeroed() };
            m.msg_iov = iovs.as_mut_ptr();
            m.msg_iovlen = NV;
            sendmsg(Some(&f), FD, &raw const m, 0)
        }
    };
    VOutcome { r, errno: unsafe { *errno_location() }, blocking0, bufs: unsafe { BUFS }, total }
}

/// C16 oracle for one vectored call.
pub(super) fn c16_vec_oracle(o: &VOutcome, is_read: bool) {
    unsafe {
        if o.r >= 0 {
            kani::assert(o.r as usize == MOVED, "vectored: a non-negative return value equals the total bytes moved");
        } else {
            kani::assert(o.r == -1, "vectored: the only negative return value is -1");
            kani::assert(MOVED == 0, "vectored: -1 is returned only if no byte was moved");
            kani::assert(o.errno == LAST_ERRNO, "vectored: -1 carries the errno of the failing kernel call");
        }
        if o.total == 0 && (IOV_CALLS == 0 || LAST_ERRNO == 0) {
            kani::assert(o.r == 0, "vectored: a request whose iovecs are all empty returns 0");
        }
        kani::assert(MOVED <= o.total, "vectored: never more bytes than requested");
        kani::assert(COUNT_OK && IOV_OK && NEXT_OK, "vectored: bytes are placed / taken in order at the caller's not-yet-transferred positions");
        kani::cover!(IOV_CALLS >= 2 && MOVED >= 2 && o.r >= 0, "vectored transfer spanning more than one kernel call");
        kani::cover!(MOVED > 0 && LAST_ERRNO == libc::ECONNRESET, "error after bytes were already moved");
        kani::cover!(WAITS >= 1 && MOVED > 0, "would-block then data");
    }
}

/// C17 oracle: what the kernel was handed.
pub(super) fn c17_vec_oracle(_o: &VOutcome) {
    unsafe {
        kani::assert(COUNT_OK, "the element count of every vectored request matches the array it passes");
        kani::assert(IOV_OK, "every vectored request describes only the caller's unfilled ranges, in order");
        kani::cover!(IOV_CALLS >= 2 && MOVED >= 1, "second request after a partial first transfer");
        kani::cover!(IOV_CALLS >= 3, "third request");
    }
}

#[cfg(not(ocv_nv3))]
io_harness!(c16_readv, 4, { let o = run_vec(VEntry::Readv); c16_vec_oracle(&o, true); });
#[cfg(not(ocv_nv3))]
io_harness!(c16_writev, 4, { let o = run_vec(VEntry::Writev); c16_vec_oracle(&o, false); });
#[cfg(not(ocv_nv3))]
io_harness!(c16_recvmsg, 4, { let o = run_vec(VEntry::Recvmsg); c16_vec_oracle(&o, true); });
#[cfg(not(ocv_nv3))]
io_harness!(c16_sendmsg, 4, { let o = run_vec(VEntry::Sendmsg); c16_vec_oracle(&o, false); });
#[cfg(not(ocv_nv3))]
io_harness!(c17_readv, 4, { let o = run_vec(VEntry::Readv); c17_vec_oracle(&o); });
#[cfg(not(ocv_nv3))]
io_harness!(c17_writev, 4, { let o = run_vec(VEntry::Writev); c17_vec_oracle(&o); });
#[cfg(not(ocv_nv3))]
io_harness!(c17_recvmsg, 4, { let o = run_vec(VEntry::Recvmsg); c17_vec_oracle(&o); });
#[cfg(not(ocv_nv3))]
io_harness!(c17_sendmsg, 4, { let o = run_vec(VEntry::Sendmsg); c17_vec_oracle(&o); });
#[cfg(not(ocv_nv3))]
io_harness!(c18_mode_readv, 4, { let o = run_vec(VEntry::Readv); unsafe { kani::assert(BLOCKING == o.blocking0, "the descriptor's blocking mode is left exactly as the caller set it"); } });
#[cfg(not(ocv_nv3))]
io_harness!(c18_mode_writev, 4, { let o = run_vec(VEntry::Writev); unsafe { kani::assert(BLOCKING == o.blocking0, "the descriptor's blocking mode is left exactly as the caller set it"); } });
#[cfg(not(ocv_nv3))]
io_harness!(c18_mode_recvmsg, 4, { let o = run_vec(VEntry::Recvmsg); unsafe { kani::assert(BLOCKING == o.blocking0, "the descriptor's blocking mode is left exactly as the caller set it"); } });
#[cfg(not(ocv_nv3))]
io_harness!(c18_mode_sendmsg, 4, { let o = run_vec(VEntry::Sendmsg); unsafe { kani::assert(BLOCKING == o.blocking0, "the descriptor's blocking mode is left exactly as the caller set it"); } });


// 3 caller iovecs of 0..=2 bytes (compiled with --cfg ocv_nv3 only)
#[cfg(ocv_nv3)]
io_harness!(c16_readv_3iov, 5, { let o = run_vec(VEntry::Readv); c16_vec_oracle(&o, true); });
#[cfg(ocv_nv3)]
io_harness!(c16_writev_3iov, 5, { let o = run_vec(VEntry::Writev); c16_vec_oracle(&o, false); });
#[cfg(ocv_nv3)]
io_harness!(c16_recvmsg_3iov, 5, { let o = run_vec(VEntry::Recvmsg); c16_vec_oracle(&o, true); });
#[cfg(ocv_nv3)]
io_harness!(c16_sendmsg_3iov, 5, { let o = run_vec(VEntry::Sendmsg); c16_vec_oracle(&o, false); });
#[cfg(ocv_nv3)]
io_harness!(c17_readv_3iov, 5, { let o = run_vec(VEntry::Readv); c17_vec_oracle(&o); });
#[cfg(ocv_nv3)]
io_harness!(c17_writev_3iov, 5, { let o = run_vec(VEntry::Writev); c17_vec_oracle(&o); });
#[cfg(ocv_nv3)]
io_harness!(c17_recvmsg_3iov, 5, { let o = run_vec(VEntry::Recvmsg); c17_vec_oracle(&o); });
#[cfg(ocv_nv3)]
io_harness!(c17_sendmsg_3iov, 5, { let o = run_vec(VEntry::Sendmsg); c17_vec_oracle(&o); });
