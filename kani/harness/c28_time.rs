// C28 - time and slicing helpers (mounted under core/src/common/mod.rs).
use super::*;
use std::time::Duration;

// (statics have distinctive non-zero initial values and are explicitly initialised: Kani 0.68 can alias a
// constant allocation with a static whose initial bytes are identical, see c16_io.rs)
static mut VNOW: u64 = 0x281;
fn vnow() -> u64 {
    unsafe { VNOW }
}

/// get_timeout_time: for every Duration and every clock reading the deadline is
/// min(u64::MAX, now + nanos) - it saturates, never wraps.
#[kani::proof]
#[kani::stub(crate::common::now, vnow)]
fn c28_timeout_saturates() {
    let secs: u64 = kani::any();
    let nanos: u32 = kani::any();
    kani::assume(nanos < 1_000_000_000);
    let now: u64 = kani::any();
    unsafe { VNOW = now };
    let d = Duration::new(secs, nanos);
    let got = get_timeout_time(d);
    // reference in 128-bit arithmetic
    let total: u128 = (secs as u128) * 1_000_000_000u128 + nanos as u128 + now as u128;
    let want = if total > u64::MAX as u128 { u64::MAX } else { total as u64 };
    assert!(got == want, "deadline must be the saturated sum");
    assert!(got >= now, "deadline never before now (no wrap)");
    kani::cover!(secs == u64::MAX, "Duration::MAX seconds reached");
    kani::cover!(got == u64::MAX && now < u64::MAX, "saturation reached");
    kani::cover!(got < u64::MAX, "non-saturating case reached");
}

/// get_slices: for every non-zero slice and every total = q*slice + r (r < slice), with the piece
/// count q case-split into one solver query per q (quick tier: q in 0..=2 at full width; thorough tier
/// adds q = 3, 4 with slice seconds < 2^16 - measured: narrowing the seconds further does not make
/// these faster, the cost is in the nanosecond carry chains; concrete trip counts keep the Vec sizes
/// concrete): terminates (unwinding assertion), every piece fits in the slice, pieces sum exactly
/// to the total, no empty piece, and total == 0 gives no piece at all.
fn slices_case(q: u32, sec_bits: u32) {
    let s_secs: u64 = kani::any();
    let s_nanos: u32 = kani::any();
    kani::assume(s_nanos < 1_000_000_000);
    kani::assume(s_secs <= (u64::MAX / 8));
    if sec_bits < 61 {
        // narrow variants: slice seconds below 2^sec_bits (the 64-bit adder chains of q >= 3 do not finish
        // quickly at full width); nanoseconds stay unrestricted, so every carry/borrow case is still reached
        kani::assume(s_secs < (1u64 << sec_bits));
    }
    let slice = Duration::new(s_secs, s_nanos);
    kani::assume(slice != Duration::ZERO);
    let r_secs: u64 = kani::any();
    let r_nanos: u32 = kani::any();
    kani::assume(r_nanos < 1_000_000_000);
    let rem = Duration::new(r_secs, r_nanos);
    kani::assume(rem < slice);
    // total = q * slice + rem, built by repeated addition (no symbolic division anywhere)
    let mut total = rem;
    let mut i = 0;
    while i < q {
        total = total.checked_add(slice).unwrap();
        i += 1;
    }
    let pieces = get_slices(total, slice);
    if total == Duration::ZERO {
        assert!(pieces.is_empty(), "zero total yields no slice");
    } else {
        let expect_len = if rem == Duration::ZERO { q as usize } else { q as usize + 1 };
        assert!(pieces.len() == expect_len, "number of pieces");
        let mut sum = Duration::ZERO;
        let mut k = 0;
        while k < pieces.len() {
            let p = pieces[k];
            assert!(p <= slice, "each piece fits in the slice");
            assert!(p != Duration::ZERO, "no empty piece");
            sum = sum.checked_add(p).unwrap();
            k += 1;
        }
        assert!(sum == total, "pieces sum to the total");
    }
    kani::cover!(rem == Duration::ZERO, "exact multiple of the slice (or zero total)");
    kani::cover!(rem != Duration::ZERO, "total with a remainder");
    core::mem::forget(pieces);
}

macro_rules! slices_q {
    ($name:ident, $q:expr, $bits:expr) => {
        #[kani::proof]
        #[kani::unwind(7)]
        fn $name() {
            slices_case($q, $bits);
        }
    };
}
slices_q!(c28_slices_q0, 0, 64);
slices_q!(c28_slices_q1, 1, 64);
slices_q!(c28_slices_q2, 2, 64);
slices_q!(c28_slices_q3_narrow, 3, 16);
slices_q!(c28_slices_q4_narrow, 4, 16);

/// The slice the runtime itself uses (10 ms, `SLICE`) with a symbolic total of 0..=3 slices plus a remainder below one slice:
/// the same oracle as above with a CONCRETE divisor, so that it stays decidable when the implementation computes the pieces
/// by division (a symbolic 128-bit divisor does not finish; the generic harnesses above then end without a verdict).
#[kani::proof]
#[kani::unwind(7)]
fn c28_slices_runtime_slice() {
    let slice = Duration::from_millis(10);
    let q: u32 = kani::any();
    kani::assume(q <= 3);
    let r_nanos: u32 = kani::any();
    kani::assume(r_nanos < 10_000_000);
    let total = Duration::new(0, q * 10_000_000 + r_nanos);
    let pieces = get_slices(total, slice);
    if total == Duration::ZERO {
        assert!(pieces.is_empty(), "zero total yields no slice");
    } else {
        let expect_len = if r_nanos == 0 { q as usize } else { q as usize + 1 };
        assert!(pieces.len() == expect_len, "number of pieces");
        let mut sum = Duration::ZERO;
        let mut k = 0;
        while k < pieces.len() {
            let p = pieces[k];
            assert!(p <= slice, "each piece fits in the slice");
            assert!(p != Duration::ZERO, "no empty piece");
            sum = sum.checked_add(p).unwrap();
            k += 1;
        }
        assert!(sum == total, "pieces sum to the total");
    }
    kani::cover!(r_nanos == 0 && q == 3, "exact multiple: 30 ms by 10 ms");
    kani::cover!(r_nanos == 0 && q == 1, "total equals the slice");
    kani::cover!(r_nanos != 0 && q == 2, "total with a remainder");
    core::mem::forget(pieces);
}

/// get_slices terminates for a total that is far larger than the bound above would allow only
/// when each iteration makes progress: one loop step strictly decreases the remaining total.
/// (Inductive step: any total > slice > 0 => checked_sub succeeds and the remainder is smaller.)
#[kani::proof]
fn c28_slices_progress_step() {
    let t_secs: u64 = kani::any();
    let t_nanos: u32 = kani::any();
    kani::assume(t_nanos < 1_000_000_000);
    let s_secs: u64 = kani::any();
    let s_nanos: u32 = kani::any();
    kani::assume(s_nanos < 1_000_000_000);
    let total = Duration::new(t_secs, t_nanos);
    let slice = Duration::new(s_secs, s_nanos);
    kani::assume(slice != Duration::ZERO);
    kani::assume(total > slice);
    let left = total.checked_sub(slice);
    assert!(left.is_some());
    assert!(left.unwrap() < total);
}
