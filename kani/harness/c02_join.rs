// C02 - joining a task returns that task's own result once it finishes (mounted under core/src/co_pool/mod.rs).
//
// Real code: CoroutinePool::{new, submit_task, submit_raw_task, try_run, wait_task_result, try_take_task_result, notify},
// Task::{new, run}, and under them OrderedLocalQueue::{push_with_priority, pop} on the shared task queue bean.
// `try_run` is what a worker coroutine does for one task (pop, run the closure, store the result, wake the waiter); it is
// an ordinary method, so it is executed directly (no coroutine body is needed for that).
// Environment: E5 - Mutex/Condvar of co_pool/mod.rs and common/mod.rs are the verif_sync model (a blocking wait lets the
// other modelled thread run, and records when a FULL timeout elapsed); dashmap/st3/skiplist/deque model crates; the two
// process-wide queue beans are created with 2 local queues of capacity 2 (instead of num_cpus x 256).
use super::*;
use crate::common::constants::{CoroutineState, COROUTINE_GLOBAL_QUEUE_BEAN, TASK_GLOBAL_QUEUE_BEAN};
use crate::scheduler::SchedulableCoroutineState;
use crate::verif_sync;

pub(crate) fn vnow() -> u64 {
    1_000
}
pub(crate) fn fmt_stub(_args: std::fmt::Arguments<'_>) -> String {
    String::new()
}
/// E6: common::page_size() asks sysconf (FFI, nondeterministic under Kani and then "negative" fails its expect)
pub(crate) fn page_size_stub() -> usize {
    4096
}

// E10: the process-wide queue singletons. `BeanFactory` stores object addresses as integers and casts them back to references;
// CBMC has to consider every object of the program as the target of such a pointer, and every access to the queue through it
// splits over all of them (pool creation alone did not finish symbolic execution in 600 s). The factory itself is decided
// under C26; here `BeanFactory::get_or_default` is stubbed by a lookup in two typed slots that the harness fills with small
// queues (2 local queues of capacity 2 instead of num_cpus x 256) - same sharing semantics: every pool gets the same instance.
static mut TASK_Q: *mut std::ffi::c_void = std::ptr::null_mut();
static mut CO_Q: *mut std::ffi::c_void = std::ptr::null_mut();
static mut Q_TAG: u64 = 0x2c0ffee; // (keeps this module's statics from being all-zero, see c16_io.rs)

// (an associated function of a type with a lifetime parameter: Kani requires the stub to have as many generic parameters as
// `BeanFactory::<'_>::get_or_default::<B>`)
pub(crate) struct StubFactory<'b>(std::marker::PhantomData<&'b ()>);
impl StubFactory<'_> {
    pub(crate) fn get_or_default<B: Default>(bean_name: &str) -> &B {
        unsafe {
            let p = if bean_name.len() == TASK_GLOBAL_QUEUE_BEAN.len() { TASK_Q } else { CO_Q };
            assert!(!p.is_null(), "harness: queue singleton not installed");
            &*p.cast::<B>()
        }
    }
}

// E12: the task queue as a contract. One `OrderedLocalQueue<Task>` operation is ~0.6 M program steps and two of them ran CBMC out
// of memory at 40 GB (DESIGN 8.2), so the pool-level harnesses that need tasks to travel from submit to a worker replace
// `OrderedLocalQueue::{push, pop, is_empty}` by an abstract shared task queue: a bag of at most 2 items from which `pop` takes ANY
// queued item (symbolic choice) - a superset of what priorities, FIFO order and stealing between the pools' local queues can
// produce, and, like the real process-wide queue, shared by every pool. What the queue itself guarantees is C03-C06's business.
static mut BAG: [*mut std::ffi::c_void; 2] = [std::ptr::null_mut(); 2];
static mut BAG_TAG: u64 = 0x2ba6;
pub(crate) struct QStub<'l, T>(std::marker::PhantomData<&'l T>);
impl<'l, T: std::fmt::Debug> QStub<'l, T> {
    pub(crate) fn push(_this: &OrderedLocalQueue<'l, T>, item: T) {
        unsafe {
            let p: *mut std::ffi::c_void = Box::into_raw(Box::new(item)).cast();
            if BAG[0].is_null() {
                BAG[0] = p;
            } else {
                assert!(BAG[1].is_null(), "harness: abstract task queue holds at most 2 tasks");
                BAG[1] = p;
            }
        }
    }
    pub(crate) fn pop(_this: &OrderedLocalQueue<'l, T>) -> Option<T> {
        unsafe {
            let first: bool = kani::any();
            let i = if BAG[1].is_null() || (first && !BAG[0].is_null()) { 0 } else { 1 };
            let p = BAG[i];
            if p.is_null() {
                return None;
            }
            BAG[i] = std::ptr::null_mut();
            Some(*Box::from_raw(p.cast::<T>()))
        }
    }
    pub(crate) fn is_empty(_this: &OrderedLocalQueue<'l, T>) -> bool {
        unsafe { BAG[0].is_null() && BAG[1].is_null() }
    }
}

pub(crate) fn small_queues() {
    unsafe {
        TASK_Q = std::ptr::from_mut(Box::leak(Box::new(OrderedWorkStealQueue::<Task<'static>>::new(2, 2)))).cast();
        CO_Q = std::ptr::from_mut(Box::leak(Box::new(OrderedWorkStealQueue::<SchedulableCoroutine>::new(2, 2)))).cast();
        Q_TAG = 1;
        BAG = [std::ptr::null_mut(); 2];
        BAG_TAG = 1;
        verif_sync::FULL_TIMEOUTS = 0;
        verif_sync::WAITED_NS = 0;
        verif_sync::NOTIFIES = 0;
        verif_sync::BLOCK_HOOK = None;
    }
}

pub(crate) fn pool(name: &str) -> CoroutinePool<'static> {
    CoroutinePool::new(String::from(name), crate::common::constants::DEFAULT_STACK_SIZE, 0, 1, 0)
}

/// (for harnesses mounted elsewhere: what a worker does for one task)
pub(crate) fn run_one(p: &CoroutinePool<'static>) -> Option<()> {
    p.try_run()
}

// (tasks are closures, not fn items: `Box::new` of a fn-item type coerced to `Box<dyn FnOnce>` is an internal compiler error
// in kani-compiler 0.68, utils.rs:234)
/// Two tasks with symbolic results and priorities, run one after the other by the pool they were submitted to: each
/// join returns its own task's value, exactly once (a second join of the same task times out), without blocking.
#[kani::proof]
#[kani::unwind(3)]
#[kani::stub(crate::common::now, vnow)]
#[kani::stub(alloc::fmt::format, fmt_stub)]
#[kani::stub(crate::common::page_size, page_size_stub)]
#[kani::stub(crate::common::beans::BeanFactory::get_or_default, StubFactory::get_or_default)]
#[kani::stub(crate::common::ordered_work_steal::OrderedLocalQueue::push, QStub::push)]
#[kani::stub(crate::common::ordered_work_steal::OrderedLocalQueue::pop, QStub::pop)]
#[kani::stub(crate::common::ordered_work_steal::OrderedLocalQueue::is_empty, QStub::is_empty)]
fn c02_join_returns_own_result() {
    small_queues();
    let p = pool("p");
    let (v1, v2): (Option<usize>, Option<usize>) = (kani::any(), kani::any());
    let (pr1, pr2): (Option<c_longlong>, Option<c_longlong>) = (kani::any(), kani::any());
    let id1 = p.submit_task(Some(String::from("t1")), |p| p, v1, pr1).expect("submit 1");
    let id2 = p.submit_task(Some(String::from("t2")), |p| p, v2, pr2).expect("submit 2");
    kani::assert(id1 != id2, "distinct tasks have distinct ids");
    kani::assert(p.try_run().is_some(), "first task runs");
    kani::assert(p.try_run().is_some(), "second task runs");
    // joined in the reverse order of submission (the order in which the worker met the two tasks is symbolic: abstract queue)
    let r2 = p.wait_task_result(id2, Duration::from_secs(1));
    kani::assert(matches!(r2, Ok(Ok(x)) if x == v2), "join returns the joined task's own return value");
    let r1 = p.wait_task_result(id1, Duration::from_secs(1));
    kani::assert(matches!(r1, Ok(Ok(x)) if x == v1), "join returns the joined task's own return value (other task)");
    unsafe {
        kani::assert(verif_sync::FULL_TIMEOUTS == 0, "joining a finished task does not block");
    }
    core::mem::forget(r1);
    core::mem::forget(r2);
    kani::cover!(v1 != v2, "different values");
    core::mem::forget(p);
}

// ---- completion racing with the wait (one pre-emption, DESIGN 2.7) -----------------------------------------------
static mut RACE_POOL: *const CoroutinePool<'static> = std::ptr::without_provenance(0x2d1);
static mut B_DONE: bool = false;
static mut B_TARGET: u32 = 0x2d2;
static mut SITES: u32 = 0x2d3;
const POSITIONS: u32 = 24;

fn completer() {
    unsafe {
        if !B_DONE {
            B_DONE = true;
            // the worker: pops the task, runs it, stores the result, wakes the waiter
            let r = (*RACE_POOL).try_run();
            kani::assert(r.is_some(), "harness: the completer finds the task");
        }
    }
}
fn race_hook(_site: u32) {
    unsafe {
        let k = SITES;
        SITES += 1;
        if k == B_TARGET {
            completer();
        }
    }
}

/// The task finishes at scheduling point `target` of the waiter's `wait_task_result` (every dashmap operation, lock and
/// notify is one), or - if the waiter reaches its blocking wait first - while the waiter is blocked. In every case the
/// waiter gets the task's value, and it never sleeps through its whole timeout although the task had finished.
fn completion_races_with_wait(target: u32) {
    small_queues();
    let p = pool("p");
    let v: Option<usize> = kani::any();
    let id = p.submit_task(Some(String::from("t")), |p| p, v, None).expect("submit");
    unsafe {
        RACE_POOL = &raw const p;
        B_DONE = false;
        B_TARGET = target;
        SITES = 0;
        verif_sync::BLOCK_HOOK = Some(completer);
    }
    verif_rt::set_yield_hook(Some(race_hook));
    let r = p.wait_task_result(id, Duration::from_secs(3600));
    verif_rt::set_yield_hook(None);
    unsafe {
        kani::assert(SITES <= POSITIONS, "the case split covers every scheduling point of the wait");
        kani::assert(B_DONE, "the task ran");
        kani::assert(matches!(r, Ok(Ok(x)) if x == v), "the waiter receives the task's own value however completion interleaves with the wait");
        kani::assert(verif_sync::FULL_TIMEOUTS == 0, "the wait returns promptly once the task has finished (no lost wake-up: it never sleeps out its whole timeout)");
    }
    kani::cover!(true, "reached");
    core::mem::forget(p);
}

macro_rules! c02_race_at {
    ($name:ident, $k:expr) => {
        #[kani::proof]
        #[kani::unwind(3)]
        #[kani::stub(crate::common::now, vnow)]
        #[kani::stub(alloc::fmt::format, fmt_stub)]
#[kani::stub(crate::common::page_size, page_size_stub)]
#[kani::stub(crate::common::beans::BeanFactory::get_or_default, StubFactory::get_or_default)]
        #[kani::stub(crate::common::ordered_work_steal::OrderedLocalQueue::push, QStub::push)]
        #[kani::stub(crate::common::ordered_work_steal::OrderedLocalQueue::pop, QStub::pop)]
        #[kani::stub(crate::common::ordered_work_steal::OrderedLocalQueue::is_empty, QStub::is_empty)]
        fn $name() {
            completion_races_with_wait($k);
        }
    };
}
c02_race_at!(c02_completion_at_point_0, 0);
c02_race_at!(c02_completion_at_point_1, 1);
c02_race_at!(c02_completion_at_point_2, 2);
c02_race_at!(c02_completion_at_point_3, 3);
c02_race_at!(c02_completion_at_point_4, 4);
c02_race_at!(c02_completion_at_point_5, 5);
c02_race_at!(c02_completion_at_point_6, 6);
c02_race_at!(c02_completion_at_point_7, 7);
c02_race_at!(c02_completion_at_point_8, 8);
c02_race_at!(c02_completion_at_point_9, 9);
c02_race_at!(c02_completion_at_point_10, 10);
c02_race_at!(c02_completion_at_point_11, 11);
c02_race_at!(c02_completion_at_point_12, 12);
c02_race_at!(c02_completion_at_point_13, 13);
c02_race_at!(c02_completion_at_point_14, 14);
c02_race_at!(c02_completion_at_point_15, 15);
c02_race_at!(c02_completion_at_point_16, 16);
c02_race_at!(c02_completion_at_point_17, 17);
c02_race_at!(c02_completion_at_point_18, 18);
c02_race_at!(c02_completion_at_point_19, 19);
c02_race_at!(c02_completion_at_point_20, 20);
c02_race_at!(c02_completion_at_point_21, 21);
c02_race_at!(c02_completion_at_point_22, 22);
c02_race_at!(c02_completion_at_point_23, 23);
c02_race_at!(c02_completion_while_blocked, 1000);

/// A first join times out while the task is still queued; a second join on the same task then blocks, and the task completes
/// while it is blocked: the second join must be woken with the task's value (it must not sleep through its own timeout too).
#[kani::proof]
#[kani::unwind(3)]
#[kani::stub(crate::common::now, vnow)]
#[kani::stub(alloc::fmt::format, fmt_stub)]
#[kani::stub(crate::common::page_size, page_size_stub)]
#[kani::stub(crate::common::beans::BeanFactory::get_or_default, StubFactory::get_or_default)]
#[kani::stub(crate::common::ordered_work_steal::OrderedLocalQueue::push, QStub::push)]
#[kani::stub(crate::common::ordered_work_steal::OrderedLocalQueue::pop, QStub::pop)]
#[kani::stub(crate::common::ordered_work_steal::OrderedLocalQueue::is_empty, QStub::is_empty)]
fn c02_rejoin_after_a_timed_out_join_is_woken() {
    small_queues();
    let p = pool("p");
    let v: Option<usize> = kani::any();
    let id = p.submit_task(Some(String::from("t")), |p| p, v, None).expect("submit");
    let first_timed_out = {
        let r1 = p.wait_task_result(id, Duration::from_millis(5));
        let e = r1.is_err();
        core::mem::forget(r1);
        e
    };
    kani::assert(first_timed_out, "the task has not run yet: the first join times out");
    unsafe {
        RACE_POOL = &raw const p;
        B_DONE = false;
        verif_sync::BLOCK_HOOK = Some(completer);
    }
    let r2 = p.wait_task_result(id, Duration::from_secs(3600));
    unsafe {
        kani::assert(B_DONE, "the task ran while the second join was blocked");
        kani::assert(matches!(r2, Ok(Ok(x)) if x == v), "the second join returns the task's own value");
        kani::assert(verif_sync::FULL_TIMEOUTS == 1, "only the first join slept through its timeout: the second one is woken by the completion");
        verif_sync::BLOCK_HOOK = None;
    }
    core::mem::forget(r2);
    core::mem::forget(p);
}

/// Two pools (two event loops) share the process-wide task queue: a task submitted to pool A may be run by pool B's
/// worker (work stealing). The join, which asks the pool the task was submitted to, must still return the result.
#[kani::proof]
#[kani::unwind(3)]
#[kani::stub(crate::common::now, vnow)]
#[kani::stub(alloc::fmt::format, fmt_stub)]
#[kani::stub(crate::common::page_size, page_size_stub)]
#[kani::stub(crate::common::beans::BeanFactory::get_or_default, StubFactory::get_or_default)]
#[kani::stub(crate::common::ordered_work_steal::OrderedLocalQueue::push, QStub::push)]
#[kani::stub(crate::common::ordered_work_steal::OrderedLocalQueue::pop, QStub::pop)]
#[kani::stub(crate::common::ordered_work_steal::OrderedLocalQueue::is_empty, QStub::is_empty)]
fn c02_result_reaches_the_waiter_whichever_pool_ran_the_task() {
    small_queues();
    let a = pool("a");
    let b = pool("b");
    let v: Option<usize> = kani::any();
    let id = a.submit_task(Some(String::from("t")), |p| p, v, None).expect("submit");
    let by_b: bool = kani::any();
    if by_b {
        kani::assert(b.try_run().is_some(), "pool B's worker obtains the task submitted to pool A (work stealing)");
    } else {
        kani::assert(a.try_run().is_some(), "pool A's worker runs its own task");
    }
    let r = a.wait_task_result(id, Duration::from_millis(5));
    kani::assert(matches!(r, Ok(Ok(x)) if x == v), "join returns the task's result whichever event loop's pool ran the task");
    kani::cover!(by_b, "the task was run by the other pool");
    kani::cover!(!by_b, "the task was run by its own pool");
    core::mem::forget(a);
    core::mem::forget(b);
}

// =============================================================================================== C12
// Pool lifecycle: only Running -> Stopping -> Stopped; submissions are refused once stopping began (and enqueue
// nothing); stop settles every registered waiter with an error instead of leaving it blocked.
fn any_pool_state() -> PoolState {
    match kani::any::<u8>() % 3 {
        0 => PoolState::Running,
        1 => PoolState::Stopping,
        _ => PoolState::Stopped,
    }
}
fn rank(s: PoolState) -> u8 {
    match s {
        PoolState::Running => 0,
        PoolState::Stopping => 1,
        PoolState::Stopped => 2,
    }
}

fn lifecycle_request(p: &CoroutinePool<'static>) {
    let before = p.state();
    let req_stopping: bool = kani::any();
    let r = if req_stopping { p.stopping() } else { p.stopped() };
    let after = p.state();
    match r {
        Ok(_) => {
            let target = if req_stopping { PoolState::Stopping } else { PoolState::Stopped };
            kani::assert(after == target, "an accepted lifecycle request ends in the requested state");
            kani::assert(after == before || rank(after) == rank(before) + 1, "the pool only moves Running -> Stopping -> Stopped, one edge at a time");
        }
        Err(_) => kani::assert(after == before, "a refused lifecycle request leaves the state untouched"),
    }
    kani::assert(rank(after) >= rank(before), "the pool never moves backwards");
}

/// From an ARBITRARY pool state, any 3 lifecycle requests (stopping / stopped, symbolic) only ever move the pool forward by
/// one documented edge; a refused request leaves the state untouched.
#[kani::proof]
#[kani::unwind(3)]
#[kani::stub(crate::common::now, vnow)]
#[kani::stub(alloc::fmt::format, fmt_stub)]
#[kani::stub(crate::common::page_size, page_size_stub)]
#[kani::stub(crate::common::beans::BeanFactory::get_or_default, StubFactory::get_or_default)]
fn c12_lifecycle_only_moves_forward() {
    small_queues();
    let p = pool("p");
    p.state.set(any_pool_state());
    // (three requests written out: the harnesses of this file run at unwind 3)
    lifecycle_request(&p);
    lifecycle_request(&p);
    lifecycle_request(&p);
    kani::cover!(p.state() == PoolState::Stopped, "reached Stopped");
    core::mem::forget(p);
}

/// Once stopping has begun (state Stopping or Stopped, symbolic) a submission is refused and enqueues nothing.
#[kani::proof]
#[kani::unwind(3)]
#[kani::stub(crate::common::now, vnow)]
#[kani::stub(alloc::fmt::format, fmt_stub)]
#[kani::stub(crate::common::page_size, page_size_stub)]
#[kani::stub(crate::common::beans::BeanFactory::get_or_default, StubFactory::get_or_default)]
fn c12_stop_rejects_new_work() {
    small_queues();
    let p = pool("p");
    let st = if kani::any() { PoolState::Stopping } else { PoolState::Stopped };
    p.state.set(st);
    let r = p.submit_task(Some(String::from("t")), |p| p, kani::any(), kani::any());
    kani::assert(r.is_err(), "submissions are rejected once stopping has begun");
    kani::assert(p.task_queue.is_local_empty() && p.task_queue.is_global_empty(), "a rejected submission enqueues nothing");
    kani::cover!(st == PoolState::Stopped, "stopped");
    core::mem::forget(p);
}

/// While Running a submission is accepted and queued (one queue push; thorough tier: the ordered queue is expensive).
#[kani::proof]
#[kani::unwind(3)]
#[kani::stub(crate::common::now, vnow)]
#[kani::stub(alloc::fmt::format, fmt_stub)]
#[kani::stub(crate::common::page_size, page_size_stub)]
#[kani::stub(crate::common::beans::BeanFactory::get_or_default, StubFactory::get_or_default)]
fn c12_running_pool_accepts_work() {
    small_queues();
    let p = pool("p");
    let r = p.submit_task(Some(String::from("t")), |p| p, kani::any(), kani::any());
    kani::assert(r.is_ok(), "a running pool accepts submissions");
    kani::assert(p.task_queue.local_len() == 1, "an accepted submission is queued");
    core::mem::forget(p);
}

/// A waiter registered for a task that will never run (the pool is cleaned up first) is given an error instead of blocking:
/// the cleanup runs while the waiter is blocked (block hook), and the waiter must come back with Ok(Err(..)) without having
/// slept through its timeout.
static mut CLEAN_POOL: *mut CoroutinePool<'static> = std::ptr::without_provenance_mut(0x2e1);
static mut CLEANED: bool = false;
fn cleaner() {
    unsafe {
        if !CLEANED {
            CLEANED = true;
            (*CLEAN_POOL).do_clean();
        }
    }
}
#[kani::proof]
#[kani::unwind(3)]
#[kani::stub(crate::common::now, vnow)]
#[kani::stub(alloc::fmt::format, fmt_stub)]
#[kani::stub(crate::common::page_size, page_size_stub)]
#[kani::stub(crate::common::beans::BeanFactory::get_or_default, StubFactory::get_or_default)]
fn c12_stop_settles_waiters() {
    small_queues();
    let mut p = pool("p");
    let id: u64 = kani::any();
    kani::assume(id != 0);
    unsafe {
        CLEAN_POOL = &raw mut p;
        CLEANED = false;
        verif_sync::BLOCK_HOOK = Some(cleaner);
    }
    let r = p.wait_task_result(id, Duration::from_secs(3600));
    unsafe {
        kani::assert(CLEANED, "the waiter blocked and the pool was cleaned up meanwhile");
        kani::assert(matches!(r, Ok(Err(_))), "a waiter for a task that will never run gets an error");
        kani::assert(verif_sync::FULL_TIMEOUTS == 0, "... instead of blocking until its timeout");
        kani::assert(p.waits.verif_len() == 0, "no waiter registration is left behind");
        verif_sync::BLOCK_HOOK = None;
    }
    kani::cover!(true, "reached the end of the scenario");
    core::mem::forget(p);
}

/// A waiter that polls with short timeouts: its first wait times out before the pool is stopped; after the stop its next wait
/// must be answered with the stop error (its registration is still known to the pool), not time out again.
#[kani::proof]
#[kani::unwind(3)]
#[kani::stub(crate::common::now, vnow)]
#[kani::stub(alloc::fmt::format, fmt_stub)]
#[kani::stub(crate::common::page_size, page_size_stub)]
#[kani::stub(crate::common::beans::BeanFactory::get_or_default, StubFactory::get_or_default)]
fn c12_stop_settles_a_waiter_that_polls() {
    small_queues();
    let mut p = pool("p");
    let id: u64 = kani::any();
    kani::assume(id != 0);
    let first_timed_out = {
        let r1 = p.wait_task_result(id, Duration::from_millis(5));
        let e = r1.is_err();
        core::mem::forget(r1);
        e
    };
    kani::assert(first_timed_out, "nothing has happened yet: the first poll times out");
    p.do_clean();
    let r2 = p.wait_task_result(id, Duration::from_millis(5));
    kani::assert(matches!(r2, Ok(Err(_))), "after the pool stopped, the polling waiter gets the stop error instead of timing out again");
    unsafe {
        kani::assert(verif_sync::FULL_TIMEOUTS == 1, "only the first poll slept through its timeout");
    }
    core::mem::forget(r2);
    kani::cover!(true, "reached the end of the scenario");
    core::mem::forget(p);
}

#[kani::proof]
#[kani::unwind(3)]
#[kani::stub(crate::common::now, vnow)]
#[kani::stub(alloc::fmt::format, fmt_stub)]
#[kani::stub(crate::common::page_size, page_size_stub)]
#[kani::stub(crate::common::beans::BeanFactory::get_or_default, StubFactory::get_or_default)]
fn c12_stop_settles_a_waiter_that_polls_fixed_id() {
    small_queues();
    let mut p = pool("p");
    // (concrete id: the quick-tier twin of the harness above, whose symbolic id costs 28 GB / 260 s of SAT)
    let id: u64 = 7;
    let first_timed_out = {
        let r1 = p.wait_task_result(id, Duration::from_millis(5));
        let e = r1.is_err();
        core::mem::forget(r1);
        e
    };
    kani::assert(first_timed_out, "nothing has happened yet: the first poll times out");
    p.do_clean();
    let r2 = p.wait_task_result(id, Duration::from_millis(5));
    kani::assert(matches!(r2, Ok(Err(_))), "after the pool stopped, the polling waiter gets the stop error instead of timing out again");
    unsafe {
        kani::assert(verif_sync::FULL_TIMEOUTS == 1, "only the first poll slept through its timeout");
    }
    core::mem::forget(r2);
    kani::cover!(true, "reached the end of the scenario");
    core::mem::forget(p);
}

/// A waiter that only arrives AFTER the pool has reached Stopped (a late join) leaves a registration behind when its wait times
/// out; a later stop() - what dropping the pool, or the event loop that owns it, issues - must settle it: its next wait gets the
/// stop error at once.
#[kani::proof]
#[kani::unwind(3)]
#[kani::stub(crate::common::now, vnow)]
#[kani::stub(alloc::fmt::format, fmt_stub)]
#[kani::stub(crate::common::page_size, page_size_stub)]
#[kani::stub(crate::common::beans::BeanFactory::get_or_default, StubFactory::get_or_default)]
fn c12_stop_of_a_stopped_pool_settles_late_waiters() {
    small_queues();
    let mut p = pool("p");
    p.state.set(PoolState::Stopped);
    let id: u64 = 7;
    let first_timed_out = {
        let r1 = p.wait_task_result(id, Duration::from_millis(5));
        let e = r1.is_err();
        core::mem::forget(r1);
        e
    };
    kani::assert(first_timed_out, "nothing will ever complete this id: the late waiter's first wait times out");
    let stop = p.stop(Duration::from_millis(1));
    kani::assert(stop.is_ok(), "stopping a stopped pool succeeds");
    core::mem::forget(stop);
    kani::assert(p.state() == PoolState::Stopped, "the pool stays Stopped");
    let r2 = p.wait_task_result(id, Duration::from_millis(5));
    kani::assert(matches!(r2, Ok(Err(_))), "after the repeated stop the late waiter gets the stop error instead of timing out again");
    unsafe {
        kani::assert(verif_sync::FULL_TIMEOUTS == 1, "only the first wait slept through its timeout");
    }
    core::mem::forget(r2);
    kani::cover!(true, "reached the end of the scenario");
    core::mem::forget(p);
}

// =============================================================================================== C13
/// Two queued tasks, one of them (symbolic) is cancelled before it starts: the worker skips exactly that one, runs the other
/// one once, the cancel mark is consumed, and the waiter of the cancelled task is not left blocked until its timeout.
static mut RAN: [u32; 2] = [0x2f1; 2];
fn task0(p: Option<usize>) -> Option<usize> {
    unsafe { RAN[0] += 1 };
    p
}
fn task1(p: Option<usize>) -> Option<usize> {
    unsafe { RAN[1] += 1 };
    p
}
#[kani::proof]
#[kani::unwind(3)]
#[kani::stub(crate::common::now, vnow)]
#[kani::stub(alloc::fmt::format, fmt_stub)]
#[kani::stub(crate::common::page_size, page_size_stub)]
#[kani::stub(crate::common::beans::BeanFactory::get_or_default, StubFactory::get_or_default)]
#[kani::stub(crate::common::ordered_work_steal::OrderedLocalQueue::push, QStub::push)]
#[kani::stub(crate::common::ordered_work_steal::OrderedLocalQueue::pop, QStub::pop)]
#[kani::stub(crate::common::ordered_work_steal::OrderedLocalQueue::is_empty, QStub::is_empty)]
fn c13_cancel_first_queued_task() {
    cancel_before_start_affects_only_that_task(true);
}

#[kani::proof]
#[kani::unwind(3)]
#[kani::stub(crate::common::now, vnow)]
#[kani::stub(alloc::fmt::format, fmt_stub)]
#[kani::stub(crate::common::page_size, page_size_stub)]
#[kani::stub(crate::common::beans::BeanFactory::get_or_default, StubFactory::get_or_default)]
#[kani::stub(crate::common::ordered_work_steal::OrderedLocalQueue::push, QStub::push)]
#[kani::stub(crate::common::ordered_work_steal::OrderedLocalQueue::pop, QStub::pop)]
#[kani::stub(crate::common::ordered_work_steal::OrderedLocalQueue::is_empty, QStub::is_empty)]
fn c13_cancel_second_queued_task() {
    cancel_before_start_affects_only_that_task(false);
}

/// (which of the two queued tasks is cancelled is concrete per harness; values, priorities and the order in which the worker
/// meets the two tasks are symbolic)
fn cancel_before_start_affects_only_that_task(cancel_first: bool) {
    small_queues();
    CANCEL_TASKS.clear();
    RUNNING_TASKS.clear();
    unsafe { RAN = [0; 2] };
    let p = pool("p");
    let (v0, v1): (Option<usize>, Option<usize>) = (kani::any(), kani::any());
    let id0 = p.submit_task(Some(String::from("t0")), |p| task0(p), v0, kani::any()).expect("submit 0");
    let id1 = p.submit_task(Some(String::from("t1")), |p| task1(p), v1, kani::any()).expect("submit 1");
    let (cid, oid, ov, ci, oi) = if cancel_first { (id0, id1, v1, 0, 1) } else { (id1, id0, v0, 1, 0) };
    CoroutinePool::try_cancel_task(cid);
    _ = p.try_run();
    _ = p.try_run();
    unsafe {
        kani::assert(RAN[ci] == 0, "a task cancelled before it starts never runs");
        kani::assert(RAN[oi] == 1, "cancelling one task never skips another task: the other one runs exactly once");
    }
    kani::assert(!CANCEL_TASKS.contains(&cid), "the cancel request is consumed with the task it was made for");
    let ro = p.wait_task_result(oid, Duration::from_millis(5));
    kani::assert(matches!(ro, Ok(Ok(x)) if x == ov), "the other task's waiter gets its result");
    kani::assert(p.try_run().is_none(), "nothing is left queued");
    kani::cover!(true, "reached");
    core::mem::forget(ro);
    core::mem::forget(p);
}

/// A waiter that only arrives AFTER the worker discarded the cancelled task is answered too (it must not sleep out its timeout).
/// (Own harness: adding this wait to the two-task harnesses above doubled their size past 28 GB.)
#[kani::proof]
#[kani::unwind(3)]
#[kani::stub(crate::common::now, vnow)]
#[kani::stub(alloc::fmt::format, fmt_stub)]
#[kani::stub(crate::common::page_size, page_size_stub)]
#[kani::stub(crate::common::beans::BeanFactory::get_or_default, StubFactory::get_or_default)]
#[kani::stub(crate::common::ordered_work_steal::OrderedLocalQueue::push, QStub::push)]
#[kani::stub(crate::common::ordered_work_steal::OrderedLocalQueue::pop, QStub::pop)]
#[kani::stub(crate::common::ordered_work_steal::OrderedLocalQueue::is_empty, QStub::is_empty)]
fn c13_late_waiter_of_a_cancelled_task_is_answered() {
    small_queues();
    CANCEL_TASKS.clear();
    RUNNING_TASKS.clear();
    unsafe { RAN = [0; 2] };
    let p = pool("p");
    let id = p.submit_task(Some(String::from("t0")), |p| task0(p), kani::any(), kani::any()).expect("submit");
    CoroutinePool::try_cancel_task(id);
    kani::assert(p.try_run().is_some(), "the worker meets the cancelled task");
    let rc = p.wait_task_result(id, Duration::from_secs(3600));
    kani::assert(matches!(rc, Ok(Err(_))), "a late waiter of the cancelled task is told that it was cancelled");
    unsafe {
        kani::assert(RAN[0] == 0, "the cancelled task never ran");
        kani::assert(verif_sync::FULL_TIMEOUTS == 0, "the late waiter did not sleep until its timeout");
    }
    kani::cover!(true, "reached");
    core::mem::forget(rc);
    core::mem::forget(p);
}

#[kani::proof]
#[kani::unwind(3)]
#[kani::stub(crate::common::now, vnow)]
#[kani::stub(alloc::fmt::format, fmt_stub)]
#[kani::stub(crate::common::page_size, page_size_stub)]
#[kani::stub(crate::common::beans::BeanFactory::get_or_default, StubFactory::get_or_default)]
#[kani::stub(crate::common::ordered_work_steal::OrderedLocalQueue::push, QStub::push)]
#[kani::stub(crate::common::ordered_work_steal::OrderedLocalQueue::pop, QStub::pop)]
#[kani::stub(crate::common::ordered_work_steal::OrderedLocalQueue::is_empty, QStub::is_empty)]
fn c13_waiter_of_a_cancelled_task_is_not_left_blocked() {
    small_queues();
    CANCEL_TASKS.clear();
    RUNNING_TASKS.clear();
    unsafe { RAN = [0; 2] };
    let p = pool("p");
    let id = p.submit_task(Some(String::from("t0")), |p| task0(p), kani::any(), None).expect("submit");
    CoroutinePool::try_cancel_task(id);
    // the worker meets the cancelled task while the waiter is blocked
    unsafe {
        RACE_POOL = &raw const p;
        B_DONE = false;
        verif_sync::BLOCK_HOOK = Some(completer);
    }
    let r = p.wait_task_result(id, Duration::from_secs(3600));
    unsafe {
        kani::assert(B_DONE && RAN[0] == 0, "the cancelled task was met by the worker and did not run");
        kani::assert(verif_sync::FULL_TIMEOUTS == 0, "the waiter of a task cancelled before it starts is not left blocked until its timeout");
        verif_sync::BLOCK_HOOK = None;
    }
    _ = r;
    kani::cover!(true, "reached the end of the scenario");
    core::mem::forget(p);
}

/// `JoinHandle::try_cancel(self)` cancels and then drops the handle (whose Drop calls `clean_task_result`): a task cancelled
/// that way before it starts must not run either, the other queued task runs, and no bookkeeping is left behind.
#[kani::proof]
#[kani::unwind(3)]
#[kani::stub(crate::common::now, vnow)]
#[kani::stub(alloc::fmt::format, fmt_stub)]
#[kani::stub(crate::common::page_size, page_size_stub)]
#[kani::stub(crate::common::beans::BeanFactory::get_or_default, StubFactory::get_or_default)]
#[kani::stub(crate::common::ordered_work_steal::OrderedLocalQueue::push, QStub::push)]
#[kani::stub(crate::common::ordered_work_steal::OrderedLocalQueue::pop, QStub::pop)]
#[kani::stub(crate::common::ordered_work_steal::OrderedLocalQueue::is_empty, QStub::is_empty)]
fn c13_cancel_then_drop_of_the_handle_keeps_the_task_cancelled() {
    // (one task only: with a second queued task and its waiter the query needed more than 24 GB; that cancelling one task does not
    // touch another one is decided by c13_cancel_{first,second}_queued_task)
    small_queues();
    CANCEL_TASKS.clear();
    RUNNING_TASKS.clear();
    unsafe { RAN = [0; 2] };
    let p = pool("p");
    let id0 = p.submit_task(Some(String::from("t0")), |p| task0(p), kani::any(), kani::any()).expect("submit 0");
    // what open_coroutine::JoinHandle::try_cancel(self) does: the cancel request, then the handle's Drop
    CoroutinePool::try_cancel_task(id0);
    p.clean_task_result(id0);
    kani::assert(p.try_run().is_some(), "the worker meets the task");
    unsafe {
        kani::assert(RAN[0] == 0, "a task cancelled before it starts never runs (the handle was dropped after the cancel)");
    }
    kani::assert(!CANCEL_TASKS.contains(&id0), "the cancel request is consumed with the task it was made for");
    kani::assert(!p.no_waits.contains(&id0), "the dropped-handle mark is consumed with the task");
    kani::cover!(true, "reached");
    core::mem::forget(p);
}

/// The worker that meets the cancelled task is a coroutine (the pool's workers are): after it discarded the task, the task is
/// not recorded as running on that worker, so a REPEATED cancel of the same task is an ordinary "not running" cancel request
/// and is not routed to the worker coroutine - which by then runs another task.
#[kani::proof]
#[kani::unwind(3)]
#[kani::stub(crate::common::now, vnow)]
#[kani::stub(alloc::fmt::format, fmt_stub)]
#[kani::stub(crate::common::page_size, page_size_stub)]
#[kani::stub(crate::common::beans::BeanFactory::get_or_default, StubFactory::get_or_default)]
#[kani::stub(crate::common::ordered_work_steal::OrderedLocalQueue::push, QStub::push)]
#[kani::stub(crate::common::ordered_work_steal::OrderedLocalQueue::pop, QStub::pop)]
#[kani::stub(crate::common::ordered_work_steal::OrderedLocalQueue::is_empty, QStub::is_empty)]
fn c13_repeated_cancel_of_a_discarded_task_reaches_no_worker() {
    small_queues();
    CANCEL_TASKS.clear();
    RUNNING_TASKS.clear();
    unsafe { RAN = [0; 2] };
    let p = pool("p");
    let worker: SchedulableCoroutine<'static> =
        SchedulableCoroutine::new(Some(String::from("w")), |_, ()| None, None, None).expect("create coroutine");
    let v1: Option<usize> = kani::any();
    let id0 = p.submit_task(Some(String::from("t0")), |p| task0(p), kani::any(), kani::any()).expect("submit 0");
    let id1 = p.submit_task(Some(String::from("t1")), |p| task1(p), v1, kani::any()).expect("submit 1");
    CoroutinePool::try_cancel_task(id0);
    SchedulableCoroutine::init_current(&worker);
    _ = p.try_run();
    _ = p.try_run();
    kani::assert(!RUNNING_TASKS.contains_key(&id0), "a discarded task is not recorded as running on the worker that discarded it");
    kani::assert(!RUNNING_TASKS.contains_key(&id1), "a finished task is not recorded as running");
    // the same task is cancelled again (try_cancel is idempotent for the caller)
    CoroutinePool::try_cancel_task(id0);
    SchedulableCoroutine::clean_current();
    unsafe {
        kani::assert(RAN[0] == 0 && RAN[1] == 1, "the cancelled task never ran, the other one ran once");
    }
    kani::assert(CANCEL_TASKS.contains(&id0), "a repeated cancel of the discarded task is a plain pending request: it is not routed to a worker coroutine");
    kani::cover!(true, "reached");
    core::mem::forget(worker);
    core::mem::forget(p);
}

// =============================================================================================== C11
// Worker count bookkeeping, one step at a time: the pool's listener (CoroutineCreator) and submit_co.
use crate::coroutine::listener::Listener;

fn any_co_state() -> SchedulableCoroutineState {
    use crate::common::constants::{SyscallName, SyscallState};
    match kani::any::<u8>() % 7 {
        0 => CoroutineState::Ready,
        1 => CoroutineState::Running,
        2 => CoroutineState::Suspend((), kani::any()),
        3 => CoroutineState::Syscall((), SyscallName::nanosleep, if kani::any() { SyscallState::Executing } else { SyscallState::Suspend(kani::any()) }),
        4 => CoroutineState::Cancelled,
        5 => CoroutineState::Complete(if kani::any() { Some(kani::any()) } else { None }),
        _ => CoroutineState::Error("boom"),
    }
}

/// The pool's listener, from an ARBITRARY running count: a worker that reaches a terminal state (Complete, Error,
/// Cancelled) is subtracted exactly once, every other transition leaves the count alone (no task queued, so no worker is
/// created), and the count never wraps below zero.
#[kani::proof]
#[kani::unwind(3)]
#[kani::stub(crate::common::now, vnow)]
#[kani::stub(alloc::fmt::format, fmt_stub)]
#[kani::stub(crate::common::page_size, page_size_stub)]
#[kani::stub(crate::common::beans::BeanFactory::get_or_default, StubFactory::get_or_default)]
#[kani::stub(crate::common::ordered_work_steal::OrderedLocalQueue::push, QStub::push)]
#[kani::stub(crate::common::ordered_work_steal::OrderedLocalQueue::pop, QStub::pop)]
#[kani::stub(crate::common::ordered_work_steal::OrderedLocalQueue::is_empty, QStub::is_empty)]
fn c11_listener_counts_terminated_workers() {
    small_queues();
    let p = pool("p");
    CoroutinePool::init_current(&p);
    let running0: usize = kani::any();
    p.running.store(running0, Ordering::Release);
    let (old, new) = (any_co_state(), any_co_state());
    let local = crate::coroutine::local::CoroutineLocal::default();
    let creator = CoroutineCreator::default();
    creator.on_state_changed(&local, old, new);
    let after = p.get_running_size();
    let terminal = matches!(new, CoroutineState::Complete(_) | CoroutineState::Error(_) | CoroutineState::Cancelled);
    if terminal {
        kani::assert(after == running0.saturating_sub(1), "a worker that finishes, fails or is cancelled is subtracted from the running size exactly once");
    } else {
        kani::assert(after == running0, "a worker that is still alive stays counted");
    }
    kani::cover!(terminal && running0 == 1, "last worker terminates");
    kani::cover!(!terminal, "non-terminal transition");
    CoroutinePool::clean_current();
    core::mem::forget(local);
    core::mem::forget(p);
}

/// submit_co: for every running count and maximum size, a worker is created exactly when running < max, the count then
/// grows by exactly one, and it never exceeds the maximum.
#[kani::proof]
#[kani::unwind(3)]
#[kani::stub(crate::common::now, vnow)]
#[kani::stub(alloc::fmt::format, fmt_stub)]
#[kani::stub(crate::common::page_size, page_size_stub)]
#[kani::stub(crate::common::beans::BeanFactory::get_or_default, StubFactory::get_or_default)]
#[kani::stub(crate::common::ordered_work_steal::OrderedLocalQueue::push, QStub::push)]
#[kani::stub(crate::common::ordered_work_steal::OrderedLocalQueue::pop, QStub::pop)]
#[kani::stub(crate::common::ordered_work_steal::OrderedLocalQueue::is_empty, QStub::is_empty)]
fn c11_submit_co_respects_max_size() {
    small_queues();
    let p = pool("p");
    let running0: usize = kani::any();
    let max: usize = kani::any();
    kani::assume(running0 <= max);
    p.running.store(running0, Ordering::Release);
    p.set_max_size(max);
    let r = p.submit_co(|_, ()| None, None, kani::any());
    let after = p.get_running_size();
    if running0 >= max {
        kani::assert(r.is_err() && after == running0, "no worker is created beyond the maximum size");
    } else {
        kani::assert(r.is_ok() && after == running0 + 1, "a created worker is counted exactly once");
    }
    kani::assert(after <= max, "the running size never exceeds the maximum size");
    kani::cover!(r.is_ok(), "created");
    kani::cover!(r.is_err(), "refused");
    core::mem::forget(p);
}
