// C03 / C04 / C05 / C06 - plain work-steal queue (mounted under core/src/common/work_steal.rs).
// Real code: WorkStealQueue::{push,pop,len}, LocalQueue::{push,pop,tick,len,is_full}.
// Models: st3::fifo::Worker (ring, sequential st3 semantics), crossbeam_deque::Injector, rand.
use super::*;

/// C06 (i): from ANY u32 tick value, among 61 consecutive pops one consults the shared queue first
/// (tick() returns a multiple of 61) - including across the u32::MAX wrap.
#[kani::proof]
#[kani::unwind(63)]
fn c06_ws_tick_window() {
    let q: WorkStealQueue<u8> = WorkStealQueue::new(1, 2);
    let local = q.local_queue();
    let t0: u32 = kani::any();
    local.tick.store(t0, Ordering::Release);
    let mut hit = false;
    let mut i = 0;
    while i < 61 {
        if local.tick().is_multiple_of(61) {
            hit = true;
        }
        i += 1;
    }
    kani::assert(hit, "among any 61 consecutive pops one consults the shared queue first");
    kani::cover!(t0 > u32::MAX - 61, "window across the u32 wrap");
    kani::cover!(t0 == 0, "fresh queue");
    core::mem::forget(local);
    core::mem::forget(q);
}

/// C06 (ii): when the tick says "shared first" and the shared queue holds an item, pop returns the
/// shared item although the local queue is not empty.
#[kani::proof]
#[kani::unwind(6)]
fn c06_ws_shared_first_on_tick() {
    let q: WorkStealQueue<u8> = WorkStealQueue::new(1, 2);
    let local = q.local_queue();
    let t0: u32 = kani::any();
    // tick() will return t0 + 1 (or 0 after the wrap)
    kani::assume(t0 == u32::MAX || (t0 + 1).is_multiple_of(61));
    local.tick.store(t0, Ordering::Release);
    local.push(1);
    q.push(9);
    let got = local.pop();
    kani::assert(got == Some(9), "the waiting shared item is returned by the pop whose tick is a multiple of 61");
    kani::assert(local.pop() == Some(1), "the local item is still there");
    kani::cover!(t0 == u32::MAX, "wrap case");
    kani::cover!(t0 == 60, "first window");
    core::mem::forget(local);
    core::mem::forget(q);
}

// ---- C03, sequential part for the plain queue: the shared queue's reported length equals the number of items it holds
/// ... after the pop that consults the shared queue first (every 61st), from any tick value that triggers it
#[kani::proof]
#[kani::unwind(6)]
fn c03_ws_len_after_shared_first_pop() {
    let q: WorkStealQueue<u8> = WorkStealQueue::new(1, 2);
    let local = q.local_queue();
    let t0: u32 = kani::any();
    kani::assume(t0 == u32::MAX || (t0 + 1).is_multiple_of(61));
    local.tick.store(t0, Ordering::Release);
    let pre: u8 = kani::any();
    kani::assume(pre >= 1 && pre <= 3);
    let mut i = 0;
    while i < pre {
        q.push(10 + i);
        i += 1;
    }
    let got = local.pop();
    kani::assert(got == Some(10), "the pop whose tick is a multiple of 61 returns the oldest shared item");
    kani::assert(q.len() == (pre - 1) as usize, "the shared queue's reported length equals the number of items it still holds");
    // drain through the shared queue's own pop: exactly the rest comes out
    let mut n = 0u8;
    let mut k = 0;
    while k < 4 {
        if q.pop().is_some() {
            n += 1;
        }
        k += 1;
    }
    kani::assert(n == pre - 1, "draining returns exactly the items not yet popped");
    kani::cover!(pre == 3, "three shared items");
    core::mem::forget(local);
    core::mem::forget(q);
}

/// ... after a full local queue overflows into a shared queue that already holds items
#[kani::proof]
#[kani::unwind(6)]
fn c03_ws_len_after_local_overflow() {
    let q: WorkStealQueue<u8> = WorkStealQueue::new(1, 2);
    let local = q.local_queue();
    let pre: u8 = kani::any();
    kani::assume(pre <= 2);
    let mut i = 0;
    while i < pre {
        q.push(10 + i);
        i += 1;
    }
    local.push(1);
    local.push(2);
    local.push(3); // local capacity 2: half of the local queue and the new item go to the shared queue
    let in_local = local.len();
    kani::assert(q.len() + in_local == pre as usize + 3, "after an overflow the shared queue's reported length plus the local items equals everything pushed");
    let mut n = 0usize;
    let mut k = 0;
    while k < 5 {
        if q.pop().is_some() {
            n += 1;
        }
        k += 1;
    }
    kani::assert(n + in_local == pre as usize + 3, "the shared queue really holds what it reports (its pop drains it completely)");
    let mut k = 0;
    while k < 2 {
        _ = local.queue.pop();
        k += 1;
    }
    kani::cover!(pre == 2, "shared queue already held two items");
    core::mem::forget(local);
    core::mem::forget(q);
}
