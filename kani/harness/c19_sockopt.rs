// C19 - socket timeout options are tracked per live socket without crashing
// (mounted under core/src/syscall/unix/mod.rs).
//
// Real code: syscall::setsockopt (Facade -> NioSetsockoptSyscall -> Raw), recv_time_limit,
// send_time_limit (lazy cache fill through libc::getsockopt), get_time_limit, syscall::close
// (Facade -> NioCloseSyscall -> Raw). The kernel is a model of the two timeout options per
// descriptor number: the raw setsockopt/close handed in as fn_ptr and the libc::getsockopt stub
// read and write it. Closing a number resets its options (the next socket with that number is new).
use super::*;
use std::ffi::c_void;

const NFD: usize = 2;
const FDS: [c_int; NFD] = [5, 6];

#[derive(Copy, Clone)]
struct Opt {
    rcv: libc::timeval,
    snd: libc::timeval,
}
const ZERO_TV: libc::timeval = libc::timeval { tv_sec: 0, tv_usec: 0 };
// (statics have distinctive non-zero initial values and are explicitly initialised: Kani 0.68 can alias a
// constant allocation with a static whose initial bytes are identical, see c16_io.rs)
static mut KERNEL: [Opt; NFD] = [Opt { rcv: libc::timeval { tv_sec: 0x192, tv_usec: 0x193 }, snd: ZERO_TV }; NFD];
static mut DEL_EVENT_CALLS: u32 = 0x191;

fn slot(fd: c_int) -> usize {
    if fd == FDS[0] {
        0
    } else {
        1
    }
}

extern "C" fn k_setsockopt(fd: c_int, level: c_int, name: c_int, value: *const c_void, _len: libc::socklen_t) -> c_int {
    unsafe {
        if level == libc::SOL_SOCKET {
            let tv = *value.cast::<libc::timeval>();
            if name == libc::SO_RCVTIMEO {
                KERNEL[slot(fd)].rcv = tv;
            } else if name == libc::SO_SNDTIMEO {
                KERNEL[slot(fd)].snd = tv;
            }
        }
    }
    0
}

unsafe extern "C" fn k_getsockopt(
    fd: c_int,
    level: c_int,
    name: c_int,
    value: *mut c_void,
    len: *mut libc::socklen_t,
) -> c_int {
    if level == libc::SOL_SOCKET && (name == libc::SO_RCVTIMEO || name == libc::SO_SNDTIMEO) {
        let tv = if name == libc::SO_RCVTIMEO { KERNEL[slot(fd)].rcv } else { KERNEL[slot(fd)].snd };
        *value.cast::<libc::timeval>() = tv;
        *len = size_of::<libc::timeval>() as libc::socklen_t;
        return 0;
    }
    set_errno(libc::ENOPROTOOPT);
    -1
}

extern "C" fn k_close(fd: c_int) -> c_int {
    unsafe {
        KERNEL[slot(fd)] = Opt { rcv: ZERO_TV, snd: ZERO_TV };
    }
    0
}

fn s_del_event(_fd: c_int) -> std::io::Result<()> {
    unsafe { DEL_EVENT_CALLS += 1 };
    Ok(())
}

fn want_limit(tv: &libc::timeval) -> u64 {
    let ns = (tv.tv_sec as u64) * 1_000_000_000 + (tv.tv_usec as u64) * 1_000;
    if ns == 0 {
        u64::MAX
    } else {
        ns
    }
}

fn any_tv() -> libc::timeval {
    let sec: libc::time_t = kani::any();
    let usec: libc::suseconds_t = kani::any();
    kani::assume(sec >= 0 && sec < (1 << 20));
    kani::assume(usec >= 0 && usec < 1_000_000);
    libc::timeval { tv_sec: sec, tv_usec: usec }
}

/// One operation of the history. kind: 0 set RCVTIMEO, 1 set SNDTIMEO, 2 query recv limit (what hooked
/// reads apply), 3 query send limit, 4 close (the number is then reused by a fresh socket).
fn step(kind: u8, fd: c_int) {
    unsafe {
        match kind {
            0 | 1 => {
                let tv = any_tv();
                let name = if kind == 0 { libc::SO_RCVTIMEO } else { libc::SO_SNDTIMEO };
                let f: extern "C" fn(c_int, c_int, c_int, *const c_void, libc::socklen_t) -> c_int = k_setsockopt;
                let r = setsockopt(
                    Some(&f),
                    fd,
                    libc::SOL_SOCKET,
                    name,
                    (&raw const tv).cast(),
                    size_of::<libc::timeval>() as libc::socklen_t,
                );
                kani::assert(r == 0, "setsockopt succeeds when the kernel accepts the option");
            }
            2 => {
                let got = recv_time_limit(fd);
                kani::assert(got == want_limit(&KERNEL[slot(fd)].rcv), "the receive limit applied equals the socket's current SO_RCVTIMEO (0 = unlimited)");
            }
            3 => {
                let got = send_time_limit(fd);
                kani::assert(got == want_limit(&KERNEL[slot(fd)].snd), "the send limit applied equals the socket's current SO_SNDTIMEO (0 = unlimited)");
            }
            _ => {
                let f: extern "C" fn(c_int) -> c_int = k_close;
                let r = close(Some(&f), fd);
                kani::assert(r == 0, "close succeeds");
            }
        }
    }
}

fn history(n: usize) {
    unsafe {
        KERNEL = [Opt { rcv: ZERO_TV, snd: ZERO_TV }; NFD];
        DEL_EVENT_CALLS = 0;
    }
    let mut kinds = [0u8; 4];
    let mut i = 0;
    while i < n {
        let kind: u8 = kani::any();
        kani::assume(kind <= 4);
        let which: bool = kani::any();
        kinds[i] = kind;
        step(kind, if which { FDS[0] } else { FDS[1] });
        i += 1;
    }
    kani::cover!(n >= 2 && kinds[0] == 2 && kinds[1] == 0, "set after a query");
    kani::cover!(n >= 2 && kinds[0] == 0 && kinds[1] == 0, "set twice");
    kani::cover!(n >= 3 && kinds[0] == 0 && kinds[1] == 4 && kinds[2] == 2, "set, close, query on the reused number");
}

macro_rules! c19_harness {
    ($name:ident, $n:expr) => {
        #[kani::proof]
        #[kani::unwind(6)]
        #[kani::stub(libc::getsockopt, k_getsockopt)]
        #[kani::stub(crate::net::EventLoops::del_event, s_del_event)]
        fn $name() {
            history($n);
        }
    };
}
c19_harness!(c19_history_2, 2);
c19_harness!(c19_history_3, 3);
c19_harness!(c19_history_4, 4);
