// C19 - socket timeout options are tracked per live socket without crashing
// (mounted under core/src/syscall/unix/mod.rs).
//
// Real code: syscall::setsockopt (Facade -> NioSetsockoptSyscall -> Raw), recv_time_limit,
// send_time_limit (lazy cache fill through libc::getsockopt), get_time_limit, syscall::close
// (Facade -> NioCloseSyscall -> Raw). The kernel is a model of the two timeout options per
// descriptor number: the raw setsockopt/close handed in as fn_ptr and the libc::getsockopt stub
// read and write it. Closing a number resets its options (the next socket with that number is new).
use super::*;
use std::ffi::c_void;

const NFD: usize = 2;

const FDS: [c_int; NFD] = [5, 6];

#[derive(Copy, Clone)]
struct Opt {
    rcv: libc::timeval,
    snd: libc::timeval,
}
const ZERO_TV: libc::timeval = libc::timeval { tv_sec: 0, tv_usec: 0 };
// (statics have distinctive non-zero initial values and are explicitly initialised: Kani 0.68 can alias a
// constant allocation with a static whose initial bytes are identical, see c16_io.rs)
static mut KERNEL: [Opt; NFD] = [Opt { rcv: libc::timeval { tv_sec: 0x192, tv_usec: 0x193 }, snd: ZERO_TV }; NFD];
static mut DEL_EVENT_CALLS: u32 = 0x191;
static mut OP_TV: Option<libc::timeval> = None; // step harnesses: the timeval of the set operation (drawn up front)
static mut NARROW: u32 = 0x19e; // 0x19f: any_tv() narrowed (history harnesses)

fn slot(fd: c_int) -> usize {
    if fd == FDS[0] {
        0
    } else {
        1
    }
}

// Linux sock_set_timeout(): tv_usec outside [0, 10^6) is EDOM; a negative tv_sec is accepted and stored as 0.
extern "C" fn k_setsockopt(fd: c_int, level: c_int, name: c_int, value: *const c_void, _len: libc::socklen_t) -> c_int {
    unsafe {
        if level == libc::SOL_SOCKET {
            let mut tv = *value.cast::<libc::timeval>();
            if tv.tv_usec < 0 || tv.tv_usec >= 1_000_000 {
                set_errno(libc::EDOM);
                return -1;
            }
            if tv.tv_sec < 0 {
                tv = ZERO_TV;
            }
            if name == libc::SO_RCVTIMEO {
                KERNEL[slot(fd)].rcv = tv;
            } else if name == libc::SO_SNDTIMEO {
                KERNEL[slot(fd)].snd = tv;
            }
        }
    }
    0
}

pub(super) unsafe fn k_getsockopt(
    fd: c_int,
    level: c_int,
    name: c_int,
    value: *mut c_void,
    len: *mut libc::socklen_t,
) -> c_int {
    if level == libc::SOL_SOCKET && (name == libc::SO_RCVTIMEO || name == libc::SO_SNDTIMEO) {
        let tv = if name == libc::SO_RCVTIMEO { KERNEL[slot(fd)].rcv } else { KERNEL[slot(fd)].snd };
        *value.cast::<libc::timeval>() = tv;
        *len = size_of::<libc::timeval>() as libc::socklen_t;
        return 0;
    }
    set_errno(libc::ENOPROTOOPT);
    -1
}

extern "C" fn k_close(fd: c_int) -> c_int {
    unsafe {
        KERNEL[slot(fd)] = Opt { rcv: ZERO_TV, snd: ZERO_TV };
    }
    0
}

/// Linux releases the descriptor even when close() reports EINTR or EIO (close(2)): the number can be handed to a new socket
/// although the call "failed".
extern "C" fn k_close_interrupted(fd: c_int) -> c_int {
    unsafe {
        KERNEL[slot(fd)] = Opt { rcv: ZERO_TV, snd: ZERO_TV };
    }
    set_errno(libc::EINTR);
    -1
}

fn s_del_event(_fd: c_int) -> std::io::Result<()> {
    unsafe { DEL_EVENT_CALLS += 1 };
    Ok(())
}

// ---- conversion as an uninterpreted function (Ackermann table) ---------------------------------
// The coherence harnesses below are about WHICH value the cache holds (per descriptor, per direction,
// after which operation), not about the arithmetic of the conversion. `get_time_limit` is therefore
// stubbed by a memoised arbitrary function of (tv_sec, tv_usec) that only keeps the clause C19 names:
// the zero timeval means "no limit" (u64::MAX) and nothing else does. The arithmetic itself is decided
// for every timeval by `c19_conversion_all_timeval` (real get_time_limit against a 128-bit reference).
const UF_N: usize = 8;
static mut UF_KEYS: [(libc::time_t, libc::suseconds_t); UF_N] = [(0x19a, 0x19b); UF_N];
static mut UF_VALS: [u64; UF_N] = [0x19c; UF_N];
static mut UF_USED: usize = 0x19d;

fn uf_limit(tv: &libc::timeval) -> u64 {
    unsafe {
        let mut i = 0;
        while i < UF_N {
            if i < UF_USED && UF_KEYS[i].0 == tv.tv_sec && UF_KEYS[i].1 == tv.tv_usec {
                return UF_VALS[i];
            }
            i += 1;
        }
        assert!(UF_USED < UF_N, "conversion table of the harness is large enough");
        let v: u64 = kani::any();
        if tv.tv_sec == 0 && tv.tv_usec == 0 {
            kani::assume(v == u64::MAX);
        } else {
            kani::assume(v != u64::MAX && v != 0);
        }
        UF_KEYS[UF_USED] = (tv.tv_sec, tv.tv_usec);
        UF_VALS[UF_USED] = v;
        UF_USED += 1;
        v
    }
}

/// The limit hooked I/O must apply for a socket whose option currently holds `tv` (the kernel model only stores
/// non-negative fields with tv_usec < 10^6): the repository's own conversion - stubbed by `uf_limit` in the coherence
/// harnesses, the real function in `c19_history_*`; its arithmetic is decided by `c19_conversion_all_timeval`.
fn want_limit(tv: &libc::timeval) -> u64 {
    get_time_limit(tv)
}

/// get_time_limit for every non-negative timeval against a 128-bit reference: 0 means unlimited (u64::MAX),
/// otherwise the saturated nanosecond count; never 0.
#[kani::proof]
fn c19_conversion_all_timeval() {
    let sec: libc::time_t = kani::any();
    let usec: libc::suseconds_t = kani::any();
    kani::assume(sec >= 0 && usec >= 0);
    let tv = libc::timeval { tv_sec: sec, tv_usec: usec };
    let got = get_time_limit(&tv);
    let total: u128 = (sec as u128) * 1_000_000_000u128 + (usec as u128) * 1_000u128;
    let want = if total == 0 || total > u64::MAX as u128 { u64::MAX } else { total as u64 };
    kani::assert(got == want, "the applied limit is the option value in nanoseconds (saturated), zero meaning no limit");
    kani::cover!(sec == 0 && usec == 0, "zero timeval");
    kani::cover!(sec == 0 && usec > 0 && usec < 1_000_000, "sub-second timeval");
    kani::cover!(total > u64::MAX as u128, "saturating timeval");
}

fn any_tv() -> libc::timeval {
    // every timeval: negative and out-of-range fields included (the kernel model decides what is accepted)
    let tv = libc::timeval { tv_sec: kani::any(), tv_usec: kani::any() };
    if unsafe { NARROW } == 0x19f {
        // concrete-history harnesses (thorough tier): |tv_sec| < 2^20, |tv_usec| < 2^21 keeps the SAT query small
        kani::assume(tv.tv_sec > -(1 << 20) && tv.tv_sec < (1 << 20) && tv.tv_usec > -(1 << 21) && tv.tv_usec < (1 << 21));
    }
    tv
}

/// One operation of the history. kind: 0 set RCVTIMEO, 1 set SNDTIMEO, 2 query recv limit (what hooked
/// reads apply), 3 query send limit, 4 close (the number is then reused by a fresh socket), 5 a close that the kernel reports
/// as interrupted (-1/EINTR) although it released the descriptor (Linux), followed by the same reuse.
fn step(kind: u8, fd: c_int) {
    unsafe {
        match kind {
            0 | 1 => {
                let tv = match OP_TV {
                    Some(tv) => tv,
                    None => any_tv(),
                };
                let name = if kind == 0 { libc::SO_RCVTIMEO } else { libc::SO_SNDTIMEO };
                let f: extern "C" fn(c_int, c_int, c_int, *const c_void, libc::socklen_t) -> c_int = k_setsockopt;
                let r = setsockopt(
                    Some(&f),
                    fd,
                    libc::SOL_SOCKET,
                    name,
                    (&raw const tv).cast(),
                    size_of::<libc::timeval>() as libc::socklen_t,
                );
                let accepted = tv.tv_usec >= 0 && tv.tv_usec < 1_000_000;
                kani::assert((r == 0) == accepted, "setsockopt returns the kernel's verdict");
            }
            2 => {
                let got = recv_time_limit(fd);
                kani::assert(got == want_limit(&KERNEL[slot(fd)].rcv), "the receive limit applied equals the socket's current SO_RCVTIMEO (0 = unlimited)");
            }
            3 => {
                let got = send_time_limit(fd);
                kani::assert(got == want_limit(&KERNEL[slot(fd)].snd), "the send limit applied equals the socket's current SO_SNDTIMEO (0 = unlimited)");
            }
            5 => {
                let f: extern "C" fn(c_int) -> c_int = k_close_interrupted;
                let r = close(Some(&f), fd);
                kani::assert(r == -1, "close returns the kernel's result");
            }
            _ => {
                let f: extern "C" fn(c_int) -> c_int = k_close;
                let r = close(Some(&f), fd);
                kani::assert(r == 0, "close succeeds");
            }
        }
    }
}

fn history(n: usize) -> ([u8; 4], [bool; 4]) {
    unsafe {
        KERNEL = [Opt { rcv: ZERO_TV, snd: ZERO_TV }; NFD];
        DEL_EVENT_CALLS = 0;
        NARROW = 0x19f;
        OP_TV = None;
    }
    let mut kinds = [0u8; 4];
    let mut fds = [false; 4];
    let mut i = 0;
    while i < n {
        let kind: u8 = kani::any();
        kani::assume(kind <= 4);
        let which: bool = kani::any();
        kinds[i] = kind;
        fds[i] = which;
        step(kind, if which { FDS[0] } else { FDS[1] });
        i += 1;
    }
    (kinds, fds)
}

macro_rules! c19_long_cover {
    (false, $k:ident, $f:ident) => {};
    (true, $k:ident, $f:ident) => {
        kani::cover!($k[0] == 0 && $k[1] == 4 && $k[2] == 2 && $f[0] == $f[1] && $f[1] == $f[2], "set, close, query on the reused number");
    };
}
macro_rules! c19_harness {
    ($name:ident, $n:expr, $long:tt) => {
        #[kani::proof]
        #[kani::unwind(6)]
        #[kani::stub(crate::net::EventLoops::del_event, s_del_event)]
        fn $name() {
            let (k, f) = history($n);
            // reachability witnesses (every one must be satisfiable at this history length)
            kani::cover!(k[0] == 2 && k[1] == 0 && f[0] == f[1], "set after a query of the same socket");
            kani::cover!(k[0] == 0 && k[1] == 0 && f[0] == f[1], "set twice on the same socket");
            kani::cover!(k[$n - 2] == 0 && k[$n - 1] == 2 && f[$n - 2] == f[$n - 1], "query after a set");
            c19_long_cover!($long, k, f);
        }
    };
}
c19_harness!(c19_history_2, 2, false);
c19_harness!(c19_history_3, 3, true);
c19_harness!(c19_history_4, 4, true);

// ---------------------------------------------------------------------------------------------
// One operation from an ARBITRARY valid state (inductive step, DESIGN 2.6-1): histories of any length.
// INV: for each descriptor number and direction the cache either has no entry or holds exactly the
// conversion of the socket's current option value. Every INV state is reachable (set the options, then
// query the directions that are to be cached), so a counterexample is a real history.
fn any_kernel_tv() -> libc::timeval {
    let sec: libc::time_t = kani::any();
    let usec: libc::suseconds_t = kani::any();
    kani::assume(sec >= 0);
    kani::assume(usec >= 0 && usec < 1_000_000);
    libc::timeval { tv_sec: sec, tv_usec: usec }
}

fn inv_holds() -> bool {
    let mut ok = true;
    let mut i = 0;
    while i < NFD {
        let fd = FDS[i];
        let k = unsafe { KERNEL[i] };
        if let Some(v) = RECV_TIME_LIMIT.get(&fd) {
            ok &= *v.value() == want_limit(&k.rcv);
        }
        if let Some(v) = SEND_TIME_LIMIT.get(&fd) {
            ok &= *v.value() == want_limit(&k.snd);
        }
        i += 1;
    }
    ok
}

/// Symbolic inputs of a step harness, drawn first and in a fixed order (the native replayer decodes them by position):
/// slot 0 rcv.sec, rcv.usec, snd.sec, snd.usec, slot 1 the same, cached flags (slot 0 rcv, snd, slot 1 rcv, snd), the slot
/// the operation addresses, the timeval a set operation passes.
struct StepInputs {
    tvs: [[libc::timeval; 2]; NFD],
    cached: [[bool; 2]; NFD],
    which: bool,
    op_tv: libc::timeval,
}

fn step_inputs() -> StepInputs {
    let tvs = [[any_kernel_tv(), any_kernel_tv()], [any_kernel_tv(), any_kernel_tv()]];
    let cached = [[kani::any(), kani::any()], [kani::any(), kani::any()]];
    let which: bool = kani::any();
    let op_tv = libc::timeval { tv_sec: kani::any(), tv_usec: kani::any() };
    StepInputs { tvs, cached, which, op_tv }
}

fn arbitrary_valid_state(inp: &StepInputs) {
    let mut i = 0;
    while i < NFD {
        let (rcv, snd) = (inp.tvs[i][0], inp.tvs[i][1]);
        unsafe { KERNEL[i] = Opt { rcv, snd } };
        if inp.cached[i][0] {
            _ = RECV_TIME_LIMIT.insert(FDS[i], want_limit(&rcv));
        }
        if inp.cached[i][1] {
            _ = SEND_TIME_LIMIT.insert(FDS[i], want_limit(&snd));
        }
        i += 1;
    }
    unsafe { DEL_EVENT_CALLS = 0 };
}

macro_rules! c19_step {
    ($name:ident, $kind:expr) => {
        #[kani::proof]
        #[kani::unwind(10)]
        #[kani::stub(crate::net::EventLoops::del_event, s_del_event)]
        #[kani::stub(crate::syscall::unix::get_time_limit, uf_limit)]
        fn $name() {
            unsafe {
                UF_USED = 0;
                NARROW = 0x19e;
            }
            let inp = step_inputs();
            arbitrary_valid_state(&inp);
            let which = inp.which;
            let cached_before = RECV_TIME_LIMIT.contains_key(&FDS[0]) || SEND_TIME_LIMIT.contains_key(&FDS[0]);
            unsafe { OP_TV = Some(inp.op_tv) };
            step($kind, if which { FDS[0] } else { FDS[1] });
            kani::assert(inv_holds(), "after the operation every cached limit equals the socket's current option value");
            kani::cover!(which && cached_before, "the operation hits a socket with a cached limit");
            kani::cover!(which && !cached_before, "the operation hits a socket without a cached limit");
        }
    };
}
c19_step!(c19_step_set_rcvtimeo, 0);
c19_step!(c19_step_set_sndtimeo, 1);
c19_step!(c19_step_query_recv_limit, 2);
c19_step!(c19_step_query_send_limit, 3);
c19_step!(c19_step_close_and_reuse, 4);
c19_step!(c19_step_close_interrupted_and_reuse, 5);
