// C05 - higher-priority work is served first, FIFO among equals (mounted under
// core/src/common/ordered_work_steal.rs).
//
// Real code: OrderedWorkStealQueue::{push_with_priority, pop, len} (shared queue) and
// OrderedLocalQueue::{push_with_priority, pop} for ONE local handle while no more items are queued than
// the local capacity (the scope the property states; overflow to the shared queue reorders by design).
// Reference model: a stable priority queue (smallest priority value first, push order among equals).
// History shape (DESIGN 2.6-2): push^a pop^b push^c pop^d drain, with a, b, c, d symbolic and every
// priority a symbolic i64 (so the extremes i64::MIN / i64::MAX, ties and negatives are all inside).
use super::*;

const N: usize = 3; // items pushed in one history (= the skip-list model's key bound)

#[derive(Copy, Clone)]
struct Item {
    prio: c_longlong,
    seq: u8,
    live: bool,
}

struct Ref {
    items: [Item; N],
    n: usize,
}
impl Ref {
    fn new() -> Ref {
        Ref { items: [Item { prio: 0, seq: 0, live: false }; N], n: 0 }
    }
    fn push(&mut self, prio: c_longlong) -> u8 {
        let seq = self.n as u8;
        self.items[self.n] = Item { prio, seq, live: true };
        self.n += 1;
        seq
    }
    /// the item a correct queue must return next: smallest priority value, earliest push among equals
    fn pop(&mut self) -> Option<u8> {
        let mut best: Option<usize> = None;
        let mut i = 0;
        while i < N {
            if i < self.n && self.items[i].live {
                match best {
                    None => best = Some(i),
                    Some(b) => {
                        if self.items[i].prio < self.items[b].prio {
                            best = Some(i);
                        }
                    }
                }
            }
            i += 1;
        }
        best.map(|b| {
            self.items[b].live = false;
            self.items[b].seq
        })
    }
}

fn counts() -> (usize, usize, usize, usize) {
    let a: usize = kani::any();
    let b: usize = kani::any();
    let c: usize = kani::any();
    let d: usize = kani::any();
    kani::assume(a <= N && c <= N && a + c <= N && a + c >= 2);
    kani::assume(b <= N && d <= N);
    (a, b, c, d)
}

/// Shared queue alone, no capacity restriction.
#[kani::proof]
#[kani::unwind(5)]
fn c05_shared_queue_priority_then_fifo() {
    let q: OrderedWorkStealQueue<u8> = OrderedWorkStealQueue::new(1, 2);
    let mut m = Ref::new();
    let (a, b, c, d) = counts();
    let mut prios = [0 as c_longlong; N];
    let mut phase = 0;
    while phase < 4 {
        let (cnt, is_push) = match phase {
            0 => (a, true),
            1 => (b, false),
            2 => (c, true),
            _ => (d, false),
        };
        let mut k = 0;
        while k < N {
            if k < cnt {
                if is_push {
                    let p: c_longlong = kani::any();
                    prios[m.n] = p;
                    let seq = m.push(p);
                    q.push_with_priority(p, seq);
                } else {
                    let got = q.pop();
                    let want = m.pop();
                    kani::assert(got == want, "pop returns the waiting item with the smallest priority value, earliest pushed among equals");
                }
            }
            k += 1;
        }
        phase += 1;
    }
    // drain
    let mut k = 0;
    while k < N + 1 {
        let got = q.pop();
        let want = m.pop();
        kani::assert(got == want, "drain order is priority order, FIFO among equals");
        k += 1;
    }
    kani::assert(q.len() == 0, "the drained queue reports length 0");
    kani::cover!(a == 3 && prios[0] == prios[1] && prios[1] == prios[2], "three items of equal priority");
    kani::cover!(a == 2 && c == 1 && b == 1 && prios[2] < prios[1], "a higher-priority item pushed after a pop");
    kani::cover!(prios[0] == c_longlong::MAX && prios[1] == c_longlong::MIN, "the i64 extremes");
}

/// One local handle, never more items queued than the local capacity (3), shared queue empty.
#[kani::proof]
#[kani::unwind(5)]
fn c05_local_queue_priority_then_fifo() {
    let q: OrderedWorkStealQueue<u8> = OrderedWorkStealQueue::new(1, 3);
    let local = q.local_queue();
    let mut m = Ref::new();
    let (a, b, c, d) = counts();
    let mut prios = [0 as c_longlong; N];
    let mut phase = 0;
    while phase < 4 {
        let (cnt, is_push) = match phase {
            0 => (a, true),
            1 => (b, false),
            2 => (c, true),
            _ => (d, false),
        };
        let mut k = 0;
        while k < N {
            if k < cnt {
                if is_push {
                    let p: c_longlong = kani::any();
                    prios[m.n] = p;
                    let seq = m.push(p);
                    local.push_with_priority(p, seq);
                } else {
                    let got = local.pop();
                    let want = m.pop();
                    kani::assert(got == want, "a single worker's pop returns the waiting item with the smallest priority value, earliest pushed among equals");
                }
            }
            k += 1;
        }
        phase += 1;
    }
    let mut k = 0;
    while k < N + 1 {
        let got = local.pop();
        let want = m.pop();
        kani::assert(got == want, "drain order is priority order, FIFO among equals");
        k += 1;
    }
    kani::cover!(a == 3 && prios[0] == prios[1] && prios[1] == prios[2], "three items of equal priority");
    kani::cover!(a == 2 && c == 1 && b == 1 && prios[2] < prios[1], "a higher-priority item pushed after a pop");
    kani::cover!(prios[0] == c_longlong::MAX && prios[1] == c_longlong::MIN, "the i64 extremes");
    core::mem::forget(local);
    core::mem::forget(q);
}

/// Two items, any two i64 priorities (ties, extremes, negatives), on the SHARED queue: the one with the smaller priority value
/// comes out first, the earlier pushed one among equals; a third pop finds nothing and the reported length follows.
#[kani::proof]
#[kani::unwind(4)]
fn c05_shared_two_items_any_priorities() {
    let q: OrderedWorkStealQueue<u8> = OrderedWorkStealQueue::new(1, 2);
    let (p1, p2): (c_longlong, c_longlong) = (kani::any(), kani::any());
    q.push_with_priority(p1, 1);
    q.push_with_priority(p2, 2);
    kani::assert(q.len() == 2, "two items are queued");
    let a = q.pop();
    let b = q.pop();
    let c = q.pop();
    if p2 < p1 {
        kani::assert(a == Some(2) && b == Some(1), "the item with the strictly higher priority (smaller value) is served first although it was pushed later");
    } else {
        kani::assert(a == Some(1) && b == Some(2), "equal or lower priority: push order is kept");
    }
    kani::assert(c.is_none() && q.len() == 0, "nothing is left and the reported length is 0");
    kani::cover!(p1 == p2, "equal priorities");
    kani::cover!(p1 == c_longlong::MAX && p2 == c_longlong::MIN, "the i64 extremes");
}

/// The same through ONE local handle (capacity 2, nothing overflows, shared queue empty): a single worker serves in priority order.
#[kani::proof]
#[kani::unwind(4)]
fn c05_local_two_items_any_priorities() {
    let q: OrderedWorkStealQueue<u8> = OrderedWorkStealQueue::new(1, 2);
    let local = q.local_queue();
    let (p1, p2): (c_longlong, c_longlong) = (kani::any(), kani::any());
    local.push_with_priority(p1, 1);
    local.push_with_priority(p2, 2);
    let a = local.pop();
    let b = local.pop();
    if p2 < p1 {
        kani::assert(a == Some(2) && b == Some(1), "a single worker serves the strictly higher priority first");
    } else {
        kani::assert(a == Some(1) && b == Some(2), "equal or lower priority: push order is kept");
    }
    kani::cover!(p1 == p2, "equal priorities");
    core::mem::forget(local);
    core::mem::forget(q);
}
