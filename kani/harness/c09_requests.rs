// C09 (+ sequences for C07/C08) - delay and cancel requests affect only the coroutine that made them
// (mounted under core/src/coroutine/suspender.rs).
//
// Real code: Suspender::{suspend_with, until_with, cancel, timestamp, is_cancel},
// Coroutine::{resume_with, raw_resume, syscall, running, suspend, cancel, complete}, change_state and
// the listener broadcast. Coroutines are scripted (corosensei model, DESIGN 2.5): each resume
// performs the next step of the coroutine's symbolic plan by calling those real functions.
use super::*;
use crate::common::constants::{CoroutineState, SyscallName, SyscallState};
use crate::coroutine::Coroutine;
use corosensei::StepCtx;

// Yield = u8 rather than the scheduler's `()`: see c07_state.rs (keeps the pool's CoroutineCreator out of the listener dispatch
// set) - and the yielded payload becomes observable (C08).
type Co = Coroutine<'static, (), u8, Option<usize>>;
type St = CoroutineState<u8, Option<usize>>;
type Ret = Result<Option<usize>, &'static str>;

const NCO: usize = 3;
const NSTEP: usize = 2;

/// step kinds: 0 plain suspend, 1 until(ts), 2 cancel, 3 until(ts) while in Syscall state (what a
/// hooked wait does), 4 cancel while in Syscall state (what the cancel signal does), 5 return(v)
#[derive(Copy, Clone)]
struct Step {
    kind: u8,
    ts: u64,
    val: Option<usize>,
    y: u8, // the value yielded by this step
}
static mut PLAN: [[Step; NSTEP]; NCO] = [[Step { kind: 5, ts: 0, val: None, y: 0 }; NSTEP]; NCO];

// (statics have distinctive non-zero initial values and are explicitly initialised: Kani 0.68 can alias a
// constant allocation with a static whose initial bytes are identical, see c16_io.rs)
static mut VNOW: u64 = 0x91;
fn vnow() -> u64 {
    unsafe { VNOW }
}
fn fmt_stub(_args: std::fmt::Arguments<'_>) -> String {
    String::new()
}
/// E6: common::page_size() asks sysconf (FFI, nondeterministic under Kani and then "negative" fails its expect)
fn page_size_stub() -> usize {
    4096
}

fn stack_lens() -> (usize, usize) {
    let t = TIMESTAMP.with(|s| unsafe { (*s.as_ptr()).len() });
    let c = CANCEL.with(|s| unsafe { (*s.as_ptr()).len() });
    (t, c)
}

/// The script interpreter: performs step `step` of coroutine `script` through the real API.
fn interpreter(script: usize, step: usize, ctx: *mut ()) {
    let ctx = unsafe { &mut *ctx.cast::<StepCtx<(), u8, Ret>>() };
    let yielder = unsafe { &*ctx.yielder };
    let suspender = Suspender::new(yielder);
    // what the real body wrapper does when the body (re)gains control
    Suspender::<(), u8>::init_current(&suspender);
    let s = if script < NCO && step < NSTEP {
        unsafe { PLAN[script][step] }
    } else {
        Step { kind: 5, ts: 0, val: None, y: 0 }
    };
    match s.kind {
        0 => suspender.suspend_with(s.y),
        1 => suspender.until_with(s.y, s.ts),
        2 => suspender.cancel(),
        3 | 4 | 6 => {
            let co = Co::current().expect("current coroutine");
            co.syscall(s.y, SyscallName::nanosleep, SyscallState::Executing)
                .expect("enter syscall state");
            if s.kind == 6 {
                // cancelled while parked in a hooked wait: Syscall(.., Suspend(ts)) and then the cancel signal
                co.syscall(s.y, SyscallName::nanosleep, SyscallState::Suspend(s.ts))
                    .expect("syscall suspend");
                suspender.cancel();
            } else if s.kind == 3 {
                // EventLoop::wait_just: mark Suspend(timestamp) then yield with until(timestamp)
                co.syscall(s.y, SyscallName::nanosleep, SyscallState::Suspend(s.ts))
                    .expect("syscall suspend");
                suspender.until_with(s.y, s.ts);
            } else {
                suspender.cancel();
            }
        }
        _ => {
            ctx.ret = Some(Ok(s.val));
        }
    }
    // the model's switch returned at once, so suspend_with's tail already re-registered the
    // suspender; undo that: while a coroutine is suspended it has no current suspender
    Suspender::<(), u8>::clean_current();
}

fn any_plan(kinds_max: u8) {
    unsafe {
        let mut c = 0;
        while c < NCO {
            let mut s = 0;
            while s < NSTEP {
                let kind: u8 = kani::any();
                kani::assume(kind <= kinds_max);
                PLAN[c][s] = Step { kind, ts: kani::any(), val: if kani::any() { Some(kani::any()) } else { None }, y: kani::any() };
                s += 1;
            }
            c += 1;
        }
    }
}

fn new_co(name: &str) -> Co {
    Coroutine::new(Some(String::from(name)), |_: &Suspender<(), u8>, ()| None, None, None).expect("create coroutine")
}

/// What the resume of a coroutine performing step `s` must report.
fn check_result(s: &Step, r: &St) {
    match s.kind {
        0 => kani::assert(*r == CoroutineState::Suspend(s.y, 0), "a plain suspend is reported with the yielded value, wake-up time 0 and not cancelled"),
        1 => kani::assert(*r == CoroutineState::Suspend(s.y, s.ts), "a timed delay is reported with the yielded value and exactly the requested wake-up time"),
        2 => kani::assert(*r == CoroutineState::Cancelled, "a cancel request cancels the coroutine that made it"),
        3 => kani::assert(
            *r == CoroutineState::Syscall(s.y, SyscallName::nanosleep, SyscallState::Suspend(s.ts)),
            "a yield made in a system-call state is reported as that system-call state",
        ),
        4 | 6 => kani::assert(matches!(*r, CoroutineState::Syscall(_, SyscallName::nanosleep, _) | CoroutineState::Cancelled),
            "a cancel requested in a system-call state is reported for the coroutine that made it"),
        _ => kani::assert(*r == CoroutineState::Complete(s.val), "the return value is reported as completion"),
    }
}

/// Two scripted coroutines on one thread, each resumed once, in order: whatever the earlier one
/// requested (also while in a system-call state), each resume reports exactly what THAT coroutine
/// requested, and both request stacks are empty after every resume. (Longer sequences follow by
/// induction from the one-step harnesses below: the only state a yield can leave behind for the next
/// coroutine on the thread are the two request stacks.)
fn sequence(kinds_max: u8) {
    any_plan(kinds_max);
    corosensei::verif_reset_script_ids();
    corosensei::verif_set_step_hook(Some(interpreter));
    unsafe { VNOW = kani::any() };
    let mut cos = [new_co("a"), new_co("b")];
    let mut i = 0;
    while i < 2 {
        let s = unsafe { PLAN[i][0] };
        let r = cos[i].resume().expect("resume");
        check_result(&s, &r);
        let (t, c) = stack_lens();
        kani::assert(t == 0, "no wake-up time request is left behind for the next coroutine");
        kani::assert(c == 0, "no cancel request is left behind for the next coroutine");
        i += 1;
    }
    unsafe {
        kani::cover!(PLAN[0][0].kind == 3 && PLAN[1][0].kind == 0, "syscall-state delay followed by a plain suspend of another coroutine");
        kani::cover!(PLAN[0][0].kind == 1 && PLAN[1][0].kind == 2, "delay then cancel");
    }
    core::mem::forget(cos);
}

macro_rules! c09_harness {
    ($name:ident, $body:expr) => {
        #[kani::proof]
        #[kani::unwind(5)]
        #[kani::stub(crate::common::now, vnow)]
        #[kani::stub(alloc::fmt::format, fmt_stub)]
        #[kani::stub(crate::common::page_size, page_size_stub)]
        fn $name() {
            $body
        }
    };
}

/// Inductive step: with no request pending on the thread (both stacks empty), ONE resume of a coroutine whose next
/// step is of the given kind (symbolic timestamp / value / clock) reports exactly what that step requested and
/// leaves no request pending. Every sequence of yields on a thread is a chain of such steps.
fn one_step(kind: u8) {
    // the step kind is a constant of the harness (one harness per kind); timestamp, yielded value and clock are symbolic
    unsafe {
        PLAN[0][0] = Step { kind, ts: kani::any(), val: None, y: kani::any() };
        VNOW = kani::any();
    }
    corosensei::verif_reset_script_ids();
    corosensei::verif_set_step_hook(Some(interpreter));
    let mut co = new_co("a");
    let (t0, c0) = stack_lens();
    kani::assert(t0 == 0 && c0 == 0, "harness: starts with no pending request");
    let s = unsafe { PLAN[0][0] };
    let r = co.resume().expect("resume");
    check_result(&s, &r);
    let (t, c) = stack_lens();
    kani::assert(t == 0, "no wake-up time request is left behind for the next coroutine");
    kani::assert(c == 0, "no cancel request is left behind for the next coroutine");
    kani::cover!(s.ts == u64::MAX, "maximal timestamp");
    kani::cover!(s.ts == 0, "zero timestamp");
    core::mem::forget(co);
}
c09_harness!(c09_step_plain_suspend, one_step(0));
c09_harness!(c09_step_delay, one_step(1));
c09_harness!(c09_step_cancel, one_step(2));
c09_harness!(c09_step_delay_in_syscall_state, one_step(3));
c09_harness!(c09_step_cancel_in_syscall_state, one_step(4));
c09_harness!(c09_step_cancel_while_parked_in_syscall, one_step(6));

// only steps made in the Running state
c09_harness!(c09_running_state_requests, sequence(2));
// including requests made while in a system-call state
c09_harness!(c09_syscall_state_requests, sequence(4));

/// C07/C08 sequences: one scripted coroutine resumed until it finishes (2 steps): the reported
/// states follow the documented graph, values cross faithfully, and a finished coroutine is never
/// stepped again.
/// (the first step's kind is concrete per harness - 4 instances; the second step's kind, all timestamps and values symbolic)
fn scripted_body_path(k0: u8) {
    unsafe {
        PLAN[0][0] = Step { kind: k0, ts: kani::any(), val: if kani::any() { Some(kani::any()) } else { None }, y: kani::any() };
        let k1: u8 = kani::any();
        kani::assume(k1 == 0 || k1 == 1 || k1 == 2 || k1 == 5);
        PLAN[0][1] = Step { kind: k1, ts: kani::any(), val: if kani::any() { Some(kani::any()) } else { None }, y: kani::any() };
        // a delayed coroutine is resumed only once it is due
        VNOW = u64::MAX;
    }
    corosensei::verif_reset_script_ids();
    corosensei::verif_set_step_hook(Some(interpreter));
    let mut co = new_co("a");
    kani::assert(co.state() == CoroutineState::Ready, "a new coroutine is Ready");
    let s0 = unsafe { PLAN[0][0] };
    let r0 = co.resume().expect("first resume");
    check_result(&s0, &r0);
    kani::assert(co.state() == r0, "state() agrees with the reported state");
    let before = corosensei::verif_resume_count();
    match r0 {
        CoroutineState::Complete(_) | CoroutineState::Error(_) => {
            let again = co.resume().expect("resume of a finished coroutine");
            kani::assert(again == r0, "a finished coroutine keeps reporting its terminal state");
            kani::assert(corosensei::verif_resume_count() == before, "a finished coroutine never runs user code again");
        }
        CoroutineState::Cancelled => {
            kani::assert(co.resume().is_err(), "a cancelled coroutine cannot be resumed");
            kani::assert(corosensei::verif_resume_count() == before, "a cancelled coroutine never runs user code again");
        }
        _ => {
            let s1 = unsafe { PLAN[0][1] };
            let r1 = co.resume().expect("second resume");
            check_result(&s1, &r1);
            kani::assert(corosensei::verif_resume_count() == before + 1, "each resume of a live coroutine steps it exactly once");
        }
    }
    kani::cover!(true, "the whole two-step path was executed");
    core::mem::forget(co);
}
c09_harness!(c07_scripted_body_suspend_first, scripted_body_path(0));
c09_harness!(c07_scripted_body_delay_first, scripted_body_path(1));
c09_harness!(c07_scripted_body_cancel_first, scripted_body_path(2));
c09_harness!(c07_scripted_body_return_first, scripted_body_path(5));

// ---------------------------------------------------------------------------------------- C25 (owner side)
// "values still stored are dropped when the coroutine is dropped": the coroutine-local storage is a field of the
// coroutine; this harness drops a real `Coroutine` (never started / suspended mid-body / completed / cancelled - symbolic)
// that holds two values with a counting destructor. The map operations themselves are decided in c25_local.rs.
static mut C25_CREATED: u32 = 0x255;
static mut C25_DROPPED: u32 = 0x256;
struct Counted(u8);
impl Drop for Counted {
    fn drop(&mut self) {
        unsafe { C25_DROPPED += 1 };
    }
}
fn counted(x: u8) -> Counted {
    unsafe { C25_CREATED += 1 };
    Counted(x)
}

c09_harness!(c25_dropped_with_the_coroutine, {
    unsafe {
        C25_CREATED = 0;
        C25_DROPPED = 0;
        VNOW = u64::MAX;
    }
    any_plan(5);
    unsafe {
        kani::assume(PLAN[0][0].kind != 3 && PLAN[0][0].kind != 4);
    }
    corosensei::verif_reset_script_ids();
    corosensei::verif_set_step_hook(Some(interpreter));
    let mut co = new_co("a");
    kani::assert(co.put("k1", counted(1)).is_none(), "first value stored");
    kani::assert(co.put("k2", counted(2)).is_none(), "second value stored");
    let resumed: bool = kani::any();
    let mut state = CoroutineState::Ready;
    if resumed {
        state = co.resume().expect("resume");
    }
    // still visible through the coroutine, whatever its state
    kani::assert(co.get::<Counted>("k1").map(|v| v.0) == Some(1), "a stored value stays readable through its coroutine");
    let replaced = co.put("k1", counted(3));
    kani::assert(replaced.map(|v| v.0) == Some(1), "put returns the previous value");
    unsafe {
        kani::assert(C25_DROPPED == 1, "the replaced value is dropped once its Option is dropped");
    }
    drop(co);
    unsafe {
        kani::assert(C25_DROPPED == C25_CREATED, "values still stored are dropped with the coroutine, in whatever state it is dropped");
    }
    kani::cover!(!resumed, "dropped before it ever ran");
    kani::cover!(matches!(state, CoroutineState::Suspend(_, _)), "dropped while suspended mid-body");
    kani::cover!(matches!(state, CoroutineState::Complete(_)), "dropped after completion");
    kani::cover!(state == CoroutineState::Cancelled, "dropped after being cancelled");
});

// ---------------------------------------------------------------------------------------- C08 (value half)
// Values cross the coroutine boundary faithfully: Coroutine<Param = u16, Yield = u8, Return = Option<usize>>.
// The scripted body yields twice and then returns (or returns earlier - symbolic); every resume argument, yielded value
// and the return value is symbolic. In the model the "pending suspend call returns" at the start of the next step, so the
// value it returns is the `input` the step hook receives - which went through the real resume_with / raw_resume.
type Co8 = Coroutine<'static, u16, u8, Option<usize>>;
const N8: usize = 3;
static mut SEEN_IN: [Option<u16>; N8] = [None; N8];
static mut YIELDS: [u8; N8] = [0x81; N8];
static mut RETURNS_AT: usize = 0x82; // the step in which the body returns
static mut RET8: Option<usize> = None;

fn interpreter8(_script: usize, step: usize, ctx: *mut ()) {
    let ctx = unsafe { &mut *ctx.cast::<StepCtx<u16, u8, Ret>>() };
    let yielder = unsafe { &*ctx.yielder };
    let suspender = Suspender::new(yielder);
    Suspender::<u16, u8>::init_current(&suspender);
    unsafe {
        if step < N8 {
            SEEN_IN[step] = ctx.input;
        }
        if step >= RETURNS_AT || step >= N8 - 1 {
            ctx.ret = Some(Ok(RET8));
        } else {
            _ = suspender.suspend_with(YIELDS[step]);
        }
    }
    Suspender::<u16, u8>::clean_current();
}

/// (the step in which the body returns is concrete per harness: 3 instances; every value is symbolic)
fn values_cross_the_boundary(returns_at: usize) {
    unsafe {
        VNOW = u64::MAX;
        SEEN_IN = [None; N8];
        YIELDS = kani::any();
        RETURNS_AT = returns_at;
        RET8 = if kani::any() { Some(kani::any()) } else { None };
    }
    corosensei::verif_reset_script_ids();
    corosensei::verif_set_step_hook(Some(interpreter8));
    let mut co: Co8 = Coroutine::new(Some(String::from("c08")), |_: &Suspender<u16, u8>, _: u16| None, None, None).expect("create coroutine");
    let args: [u16; N8] = kani::any();
    let mut k = 0;
    let mut finished = false;
    while k < N8 {
        if !finished {
            let r = co.resume_with(args[k]).expect("resume");
            unsafe {
                kani::assert(SEEN_IN[k] == Some(args[k]), "the value passed when resuming is the value the body receives for that resume");
                if k >= RETURNS_AT || k >= N8 - 1 {
                    kani::assert(r == CoroutineState::Complete(RET8), "the body's return value is reported as completion");
                    finished = true;
                } else {
                    kani::assert(r == CoroutineState::Suspend(YIELDS[k], 0), "each value the coroutine yields is the value reported by that resume, in order");
                }
            }
        }
        k += 1;
    }
    let before = corosensei::verif_resume_count();
    let again = co.resume_with(kani::any()).expect("resume of a finished coroutine");
    unsafe {
        kani::assert(again == CoroutineState::Complete(RET8), "completion is reported with the same value afterwards");
    }
    kani::assert(corosensei::verif_resume_count() == before, "the return value is produced once: a finished coroutine is not entered again");
    kani::cover!(true, "the whole exchange was executed");
    core::mem::forget(co);
}
c09_harness!(c08_return_in_first_step, values_cross_the_boundary(0));
c09_harness!(c08_one_yield_then_return, values_cross_the_boundary(1));
c09_harness!(c08_two_yields_then_return, values_cross_the_boundary(2));
