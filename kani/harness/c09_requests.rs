// C09 (+ sequences for C07/C08) - delay and cancel requests affect only the coroutine that made them
// (mounted under core/src/coroutine/suspender.rs).
//
// Real code: Suspender::{suspend_with, until_with, cancel, timestamp, is_cancel},
// Coroutine::{resume_with, raw_resume, syscall, running, suspend, cancel, complete}, change_state and
// the listener broadcast. Coroutines are scripted (corosensei model, DESIGN 2.5): each resume
// performs the next step of the coroutine's symbolic plan by calling those real functions.
use super::*;
use crate::common::constants::{CoroutineState, SyscallName, SyscallState};
use crate::coroutine::Coroutine;
use corosensei::StepCtx;

type Co = Coroutine<'static, (), (), Option<usize>>;
type St = CoroutineState<(), Option<usize>>;
type Ret = Result<Option<usize>, &'static str>;

const NCO: usize = 3;
const NSTEP: usize = 2;

/// step kinds: 0 plain suspend, 1 until(ts), 2 cancel, 3 until(ts) while in Syscall state (what a
/// hooked wait does), 4 cancel while in Syscall state (what the cancel signal does), 5 return(v)
#[derive(Copy, Clone)]
struct Step {
    kind: u8,
    ts: u64,
    val: Option<usize>,
}
static mut PLAN: [[Step; NSTEP]; NCO] = [[Step { kind: 5, ts: 0, val: None }; NSTEP]; NCO];

// (statics have distinctive non-zero initial values and are explicitly initialised: Kani 0.68 can alias a
// constant allocation with a static whose initial bytes are identical, see c16_io.rs)
static mut VNOW: u64 = 0x91;
fn vnow() -> u64 {
    unsafe { VNOW }
}
fn fmt_stub(_args: std::fmt::Arguments<'_>) -> String {
    String::new()
}

fn stack_lens() -> (usize, usize) {
    let t = TIMESTAMP.with(|s| unsafe { (*s.as_ptr()).len() });
    let c = CANCEL.with(|s| unsafe { (*s.as_ptr()).len() });
    (t, c)
}

/// The script interpreter: performs step `step` of coroutine `script` through the real API.
fn interpreter(script: usize, step: usize, ctx: *mut ()) {
    let ctx = unsafe { &mut *ctx.cast::<StepCtx<(), (), Ret>>() };
    let yielder = unsafe { &*ctx.yielder };
    let suspender = Suspender::new(yielder);
    // what the real body wrapper does when the body (re)gains control
    Suspender::<(), ()>::init_current(&suspender);
    let s = if script < NCO && step < NSTEP {
        unsafe { PLAN[script][step] }
    } else {
        Step { kind: 5, ts: 0, val: None }
    };
    match s.kind {
        0 => suspender.suspend(),
        1 => suspender.until(s.ts),
        2 => suspender.cancel(),
        3 | 4 => {
            let co = Co::current().expect("current coroutine");
            co.syscall((), SyscallName::nanosleep, SyscallState::Executing)
                .expect("enter syscall state");
            if s.kind == 3 {
                // EventLoop::wait_just: mark Suspend(timestamp) then yield with until(timestamp)
                co.syscall((), SyscallName::nanosleep, SyscallState::Suspend(s.ts))
                    .expect("syscall suspend");
                suspender.until(s.ts);
            } else {
                suspender.cancel();
            }
        }
        _ => {
            ctx.ret = Some(Ok(s.val));
        }
    }
    // the model's switch returned at once, so suspend_with's tail already re-registered the
    // suspender; undo that: while a coroutine is suspended it has no current suspender
    Suspender::<(), ()>::clean_current();
}

fn any_plan(kinds_max: u8) {
    unsafe {
        let mut c = 0;
        while c < NCO {
            let mut s = 0;
            while s < NSTEP {
                let kind: u8 = kani::any();
                kani::assume(kind <= kinds_max);
                PLAN[c][s] = Step { kind, ts: kani::any(), val: if kani::any() { Some(kani::any()) } else { None } };
                s += 1;
            }
            c += 1;
        }
    }
}

fn new_co(name: &str) -> Co {
    Coroutine::new(Some(String::from(name)), |_: &Suspender<(), ()>, ()| None, None, None).expect("create coroutine")
}

/// What the resume of a coroutine performing step `s` must report.
fn check_result(s: &Step, r: &St) {
    match s.kind {
        0 => kani::assert(*r == CoroutineState::Suspend((), 0), "a plain suspend is reported with wake-up time 0 and not cancelled"),
        1 => kani::assert(*r == CoroutineState::Suspend((), s.ts), "a timed delay is reported with exactly the requested wake-up time"),
        2 => kani::assert(*r == CoroutineState::Cancelled, "a cancel request cancels the coroutine that made it"),
        3 => kani::assert(
            *r == CoroutineState::Syscall((), SyscallName::nanosleep, SyscallState::Suspend(s.ts)),
            "a yield made in a system-call state is reported as that system-call state",
        ),
        4 => kani::assert(matches!(*r, CoroutineState::Syscall((), SyscallName::nanosleep, _) | CoroutineState::Cancelled),
            "a cancel requested in a system-call state is reported for the coroutine that made it"),
        _ => kani::assert(*r == CoroutineState::Complete(s.val), "the return value is reported as completion"),
    }
}

/// Three scripted coroutines on one thread, each resumed once, in order: whatever the earlier ones
/// requested (also while in a system-call state), each resume reports exactly what THAT coroutine
/// requested, and both request stacks are empty after every resume.
fn sequence(kinds_max: u8) {
    any_plan(kinds_max);
    corosensei::verif_reset_script_ids();
    corosensei::verif_set_step_hook(Some(interpreter));
    unsafe { VNOW = kani::any() };
    let mut cos = [new_co("a"), new_co("b"), new_co("c")];
    let mut i = 0;
    while i < NCO {
        let s = unsafe { PLAN[i][0] };
        let r = cos[i].resume().expect("resume");
        check_result(&s, &r);
        let (t, c) = stack_lens();
        kani::assert(t == 0, "no wake-up time request is left behind for the next coroutine");
        kani::assert(c == 0, "no cancel request is left behind for the next coroutine");
        i += 1;
    }
    unsafe {
        kani::cover!(PLAN[0][0].kind == 3 && PLAN[1][0].kind == 0, "syscall-state delay followed by a plain suspend of another coroutine");
        kani::cover!(PLAN[0][0].kind == 1 && PLAN[1][0].kind == 2, "delay then cancel");
    }
    core::mem::forget(cos);
}

macro_rules! c09_harness {
    ($name:ident, $body:expr) => {
        #[kani::proof]
        #[kani::unwind(5)]
        #[kani::stub(crate::common::now, vnow)]
        #[kani::stub(alloc::fmt::format, fmt_stub)]
        fn $name() {
            $body
        }
    };
}

// only steps made in the Running state
c09_harness!(c09_running_state_requests, sequence(2));
// including requests made while in a system-call state
c09_harness!(c09_syscall_state_requests, sequence(4));

/// C07/C08 sequences: one scripted coroutine resumed until it finishes (2 steps): the reported
/// states follow the documented graph, values cross faithfully, and a finished coroutine is never
/// stepped again.
c09_harness!(c07_scripted_body_path, {
    any_plan(5);
    unsafe {
        // keep to Running-state steps here (0,1,2,5); syscall-state steps are covered above
        kani::assume(PLAN[0][0].kind != 3 && PLAN[0][0].kind != 4);
        kani::assume(PLAN[0][1].kind != 3 && PLAN[0][1].kind != 4);
        // a delayed coroutine is resumed only once it is due
        VNOW = u64::MAX;
    }
    corosensei::verif_reset_script_ids();
    corosensei::verif_set_step_hook(Some(interpreter));
    let mut co = new_co("a");
    kani::assert(co.state() == CoroutineState::Ready, "a new coroutine is Ready");
    let s0 = unsafe { PLAN[0][0] };
    let r0 = co.resume().expect("first resume");
    check_result(&s0, &r0);
    kani::assert(co.state() == r0, "state() agrees with the reported state");
    let before = corosensei::verif_resume_count();
    match r0 {
        CoroutineState::Complete(_) | CoroutineState::Error(_) => {
            let again = co.resume().expect("resume of a finished coroutine");
            kani::assert(again == r0, "a finished coroutine keeps reporting its terminal state");
            kani::assert(corosensei::verif_resume_count() == before, "a finished coroutine never runs user code again");
        }
        CoroutineState::Cancelled => {
            kani::assert(co.resume().is_err(), "a cancelled coroutine cannot be resumed");
            kani::assert(corosensei::verif_resume_count() == before, "a cancelled coroutine never runs user code again");
        }
        _ => {
            let s1 = unsafe { PLAN[0][1] };
            let r1 = co.resume().expect("second resume");
            check_result(&s1, &r1);
            kani::assert(corosensei::verif_resume_count() == before + 1, "each resume of a live coroutine steps it exactly once");
        }
    }
    kani::cover!(matches!(r0, CoroutineState::Suspend((), _)), "suspended after the first step");
    kani::cover!(matches!(r0, CoroutineState::Complete(_)), "completed in the first step");
    kani::cover!(r0 == CoroutineState::Cancelled, "cancelled in the first step");
    core::mem::forget(co);
});


// ---------------------------------------------------------------------------------------- C25 (owner side)
// "values still stored are dropped when the coroutine is dropped": the coroutine-local storage is a field of the
// coroutine; this harness drops a real `Coroutine` (never started / suspended mid-body / completed / cancelled - symbolic)
// that holds two values with a counting destructor. The map operations themselves are decided in c25_local.rs.
static mut C25_CREATED: u32 = 0x255;
static mut C25_DROPPED: u32 = 0x256;
struct Counted(u8);
impl Drop for Counted {
    fn drop(&mut self) {
        unsafe { C25_DROPPED += 1 };
    }
}
fn counted(x: u8) -> Counted {
    unsafe { C25_CREATED += 1 };
    Counted(x)
}

c09_harness!(c25_dropped_with_the_coroutine, {
    unsafe {
        C25_CREATED = 0;
        C25_DROPPED = 0;
        VNOW = u64::MAX;
    }
    any_plan(5);
    unsafe {
        kani::assume(PLAN[0][0].kind != 3 && PLAN[0][0].kind != 4);
    }
    corosensei::verif_reset_script_ids();
    corosensei::verif_set_step_hook(Some(interpreter));
    let mut co = new_co("a");
    kani::assert(co.put("k1", counted(1)).is_none(), "first value stored");
    kani::assert(co.put("k2", counted(2)).is_none(), "second value stored");
    let resumed: bool = kani::any();
    let mut state = CoroutineState::Ready;
    if resumed {
        state = co.resume().expect("resume");
    }
    // still visible through the coroutine, whatever its state
    kani::assert(co.get::<Counted>("k1").map(|v| v.0) == Some(1), "a stored value stays readable through its coroutine");
    let replaced = co.put("k1", counted(3));
    kani::assert(replaced.map(|v| v.0) == Some(1), "put returns the previous value");
    unsafe {
        kani::assert(C25_DROPPED == 1, "the replaced value is dropped once its Option is dropped");
    }
    drop(co);
    unsafe {
        kani::assert(C25_DROPPED == C25_CREATED, "values still stored are dropped with the coroutine, in whatever state it is dropped");
    }
    kani::cover!(!resumed, "dropped before it ever ran");
    kani::cover!(matches!(state, CoroutineState::Suspend((), _)), "dropped while suspended mid-body");
    kani::cover!(matches!(state, CoroutineState::Complete(_)), "dropped after completion");
    kani::cover!(state == CoroutineState::Cancelled, "dropped after being cancelled");
});
