// C14 - hooked timed waits honour the requested timeout (mounted under core/src/syscall/unix/mod.rs).
//
// Time is a symbolic variable: `common::now` reads a virtual clock; `EventLoops::wait_event(d)` is
// replaced by its contract (read from `EventLoop::timed_wait_just`): it never returns before `d`
// has passed - the stub advances the clock by `d + eps` with `eps` arbitrary in [0, EPS_MAX] and
// records what was requested. The raw libc function handed in as `fn_ptr` is a scripted kernel
// that reports "nothing ready".
use super::*;
use std::time::Duration;

const EPS_MAX: u64 = 1_000_000; // 1 ms of scheduling slack per wait

// (statics have distinctive non-zero initial values and are explicitly initialised: Kani 0.68 can alias a
// constant allocation with a static whose initial bytes are identical, see c16_io.rs)
static mut VNOW: u64 = 0x141;
static mut WAITS: u32 = 0x142;
static mut REQ_SECS: u64 = 0x143; // total requested, seconds part
static mut REQ_NANOS: u64 = 0x144; // total requested, nanoseconds part (not normalised)
static mut LAST: Option<Duration> = None;
static mut NONE_WAIT: bool = false;

fn vnow() -> u64 {
    unsafe { VNOW }
}

fn wait_event_stub(timeout: Option<Duration>) -> std::io::Result<()> {
    unsafe {
        WAITS += 1;
        match timeout {
            None => NONE_WAIT = true,
            Some(d) => {
                LAST = Some(d);
                REQ_SECS = REQ_SECS.saturating_add(d.as_secs());
                REQ_NANOS += u64::from(d.subsec_nanos());
                let eps: u64 = kani::any();
                kani::assume(eps <= EPS_MAX);
                let adv = d
                    .as_secs()
                    .saturating_mul(1_000_000_000)
                    .saturating_add(u64::from(d.subsec_nanos()))
                    .saturating_add(eps);
                VNOW = VNOW.saturating_add(adv);
            }
        }
    }
    Ok(())
}

fn reset(now: u64) {
    unsafe {
        VNOW = now;
        WAITS = 0;
        REQ_SECS = 0;
        REQ_NANOS = 0;
        LAST = None;
        NONE_WAIT = false;
    }
    reset_errno();
}

fn errno() -> c_int {
    unsafe { *errno_location() }
}

// ---------------------------------------------------------------- sleep
#[kani::proof]
#[kani::stub(crate::common::now, vnow)]
#[kani::stub(crate::net::EventLoops::wait_event, wait_event_stub)]
fn c14_sleep_all_secs() {
    let secs: std::ffi::c_uint = kani::any();
    reset(kani::any());
    let r = sleep(None, secs);
    kani::assert(r == 0, "sleep returns 0 after the full time");
    unsafe {
        kani::assert(WAITS == 1 && !NONE_WAIT, "exactly one bounded wait");
        kani::assert(LAST == Some(Duration::new(u64::from(secs), 0)), "sleep waits exactly the requested seconds");
    }
    kani::assert(errno() == 0, "errno() == 0");
    kani::cover!(secs == std::ffi::c_uint::MAX, "maximal sleep");
    kani::cover!(secs == 0, "zero sleep");
}

// ---------------------------------------------------------------- usleep
#[kani::proof]
#[kani::stub(crate::common::now, vnow)]
#[kani::stub(crate::net::EventLoops::wait_event, wait_event_stub)]
fn c14_usleep_all_micros() {
    let us: std::ffi::c_uint = kani::any();
    reset(kani::any());
    let r = usleep(None, us);
    kani::assert(r == 0, "r == 0");
    unsafe {
        kani::assert(WAITS == 1 && !NONE_WAIT, "exactly one bounded wait");
        let d = LAST.unwrap();
        // exact conversion checked by multiplication (no division in the oracle)
        let total = d.as_secs() * 1_000_000_000 + u64::from(d.subsec_nanos());
        kani::assert(total == u64::from(us) * 1_000, "usleep waits exactly the requested microseconds");
    }
    kani::cover!(us == std::ffi::c_uint::MAX, "maximal usleep");
    kani::cover!(us > 0 && us < 1_000, "sub-millisecond usleep");
}

// ---------------------------------------------------------------- nanosleep
#[kani::proof]
#[kani::stub(crate::common::now, vnow)]
#[kani::stub(crate::net::EventLoops::wait_event, wait_event_stub)]
fn c14_nanosleep_all_timespec() {
    let sec: libc::time_t = kani::any();
    let nsec: libc::c_long = kani::any();
    reset(kani::any());
    let rq = libc::timespec { tv_sec: sec, tv_nsec: nsec };
    let mut rm = libc::timespec { tv_sec: 7, tv_nsec: 7 };
    let with_rm: bool = kani::any();
    let r = nanosleep(
        None,
        &raw const rq,
        if with_rm { &raw mut rm } else { std::ptr::null_mut() },
    );
    let valid = sec >= 0 && nsec >= 0 && nsec <= 999_999_999;
    unsafe {
        if valid {
            kani::assert(r == 0, "valid request returns 0");
            kani::assert(WAITS == 1 && !NONE_WAIT, "WAITS == 1 && !NONE_WAIT");
            kani::assert(LAST == Some(Duration::new(sec as u64, nsec as u32)), "nanosleep waits exactly the requested time");
            if with_rm {
                kani::assert(rm.tv_sec == 0 && rm.tv_nsec == 0, "remaining time is zero");
            }
            kani::assert(errno() == 0, "errno() == 0");
        } else {
            kani::assert(r == -1, "invalid timespec is rejected");
            kani::assert(errno() == libc::EINVAL, "with EINVAL");
            kani::assert(WAITS == 0, "without waiting");
        }
    }
    kani::cover!(valid && sec == libc::time_t::MAX, "maximal seconds");
    kani::cover!(!valid && nsec > 999_999_999, "nanoseconds out of range");
    kani::cover!(!valid && sec < 0, "negative seconds");
}

// ---------------------------------------------------------------- poll
static mut POLL_CALLS: u32 = 0x145;
static mut POLL_READY_AT: u32 = u32::MAX;
static mut POLL_BAD_TIMEOUT: bool = false;
extern "C" fn mock_poll(_fds: *mut libc::pollfd, _n: libc::nfds_t, timeout: c_int) -> c_int {
    unsafe {
        POLL_CALLS += 1;
        if timeout != 0 {
            // the hook must only ever probe the kernel with a zero timeout (otherwise it blocks the thread)
            POLL_BAD_TIMEOUT = true;
        }
        if POLL_CALLS > POLL_READY_AT {
            1
        } else {
            0
        }
    }
}

/// Nothing becomes ready: poll(timeout = T ms) for every 0 <= T <= 64 returns 0 after having
/// waited exactly T ms in total (never earlier, and no later than one slack per wait).
#[kani::proof]
#[kani::unwind(12)]
#[kani::stub(crate::common::now, vnow)]
#[kani::stub(crate::net::EventLoops::wait_event, wait_event_stub)]
fn c14_poll_timeout_le_64ms() {
    let t: c_int = kani::any();
    kani::assume((0..=64).contains(&t));
    let now0: u64 = kani::any();
    kani::assume(now0 < (1 << 62));
    reset(now0);
    unsafe {
        POLL_CALLS = 0;
        POLL_READY_AT = u32::MAX;
        POLL_BAD_TIMEOUT = false;
    }
    let f: extern "C" fn(*mut libc::pollfd, libc::nfds_t, c_int) -> c_int = mock_poll;
    let mut fds = libc::pollfd { fd: 3, events: libc::POLLIN, revents: 0 };
    let r = poll(Some(&f), &raw mut fds, 1, t);
    kani::assert(r == 0, "timed out => 0");
    unsafe {
        kani::assert(!POLL_BAD_TIMEOUT, "kernel only probed with timeout 0");
        kani::assert(!NONE_WAIT, "!NONE_WAIT");
        kani::assert(REQ_SECS == 0, "REQ_SECS == 0");
        kani::assert(REQ_NANOS == (t as u64) * 1_000_000, "total requested wait equals the timeout");
        kani::assert(VNOW - now0 >= (t as u64) * 1_000_000, "not earlier than the timeout");
        kani::assert(VNOW - now0 <= (t as u64) * 1_000_000 + u64::from(WAITS) * EPS_MAX, "not later than the timeout plus bounded slack");
    }
    kani::cover!(t == 64, "largest timeout in bound");
    kani::cover!(t == 0, "zero timeout");
    kani::cover!(t == 1, "one millisecond");
}

/// Readiness at the k-th probe ends the wait early with the kernel's result.
#[kani::proof]
#[kani::unwind(12)]
#[kani::stub(crate::common::now, vnow)]
#[kani::stub(crate::net::EventLoops::wait_event, wait_event_stub)]
fn c14_poll_ready_returns_result() {
    let t: c_int = kani::any();
    kani::assume((-1..=64).contains(&t));
    let k: u32 = kani::any();
    kani::assume(k <= 3);
    reset(0);
    unsafe {
        POLL_CALLS = 0;
        POLL_READY_AT = k;
        POLL_BAD_TIMEOUT = false;
    }
    let f: extern "C" fn(*mut libc::pollfd, libc::nfds_t, c_int) -> c_int = mock_poll;
    let mut fds = libc::pollfd { fd: 3, events: libc::POLLIN, revents: 0 };
    let r = poll(Some(&f), &raw mut fds, 1, t);
    unsafe {
        if r == 1 {
            kani::assert(POLL_CALLS == k + 1, "returned at the first ready probe");
        } else {
            kani::assert(r == 0 && t >= 0, "only a finite timeout may end with 0");
        }
    }
    kani::cover!(r == 1 && k == 3 && t == -1, "infinite poll ended by readiness");
}

// ---------------------------------------------------------------- select
static mut SEL_CALLS: u32 = 0x146;
static mut SEL_BAD_TIMEOUT: bool = false;
extern "C" fn mock_select(
    _n: c_int,
    _r: *mut libc::fd_set,
    _w: *mut libc::fd_set,
    _e: *mut libc::fd_set,
    t: *mut libc::timeval,
) -> c_int {
    unsafe {
        SEL_CALLS += 1;
        if t.is_null() || (*t).tv_sec != 0 || (*t).tv_usec != 0 {
            SEL_BAD_TIMEOUT = true;
        }
    }
    0
}

fn select_case(sec: libc::time_t, usec: libc::suseconds_t, now0: u64) -> c_int {
    reset(now0);
    unsafe {
        SEL_CALLS = 0;
        SEL_BAD_TIMEOUT = false;
    }
    let f: extern "C" fn(c_int, *mut libc::fd_set, *mut libc::fd_set, *mut libc::fd_set, *mut libc::timeval) -> c_int =
        mock_select;
    let mut tv = libc::timeval { tv_sec: sec, tv_usec: usec };
    select(
        Some(&f),
        0,
        std::ptr::null_mut(),
        std::ptr::null_mut(),
        std::ptr::null_mut(),
        &raw mut tv,
    )
}

fn select_timeout_case(max_usec: libc::suseconds_t) {
    let usec: libc::suseconds_t = kani::any();
    kani::assume(0 <= usec && usec <= max_usec);
    let now0: u64 = kani::any();
    kani::assume(now0 < (1 << 62));
    let r = select_case(0, usec, now0);
    kani::assert(r == 0, "select: timed out => 0");
    unsafe {
        kani::assert(!SEL_BAD_TIMEOUT, "select: kernel only probed with a zero timeout");
        kani::assert(!NONE_WAIT, "select: finite timeout never waits unbounded");
        kani::assert(REQ_SECS == 0, "select: no whole seconds requested for a sub-second timeout");
        let t_ns = (usec as u64) * 1_000;
        kani::assert(REQ_NANOS >= t_ns, "select must not return earlier than the requested timeout");
        kani::assert(REQ_NANOS < t_ns + 1_000_000, "select must not wait longer than the requested timeout rounded up to 1 ms");
        kani::assert(VNOW - now0 <= t_ns + 1_000_000 + u64::from(WAITS) * EPS_MAX, "select: elapsed time bounded by timeout + slack");
    }
    kani::cover!(usec == max_usec, "largest timeout in bound");
    kani::cover!(usec == 0, "zero timeout");
    kani::cover!(usec > 0 && usec < 1_000, "sub-millisecond timeout");
}

/// Nothing ready: select with a timeout of T microseconds returns 0 after waiting at least T and at
/// most T rounded up to the next millisecond. A unit error (microseconds used as milliseconds) is
/// scale free: it shows for every T >= 2, so the first harness keeps T <= 64 (short loop, clean
/// counterexample); the second covers every T up to 64 ms.
#[kani::proof]
#[kani::unwind(12)]
#[kani::stub(crate::common::now, vnow)]
#[kani::stub(crate::net::EventLoops::wait_event, wait_event_stub)]
fn c14_select_timeout_unit() {
    select_timeout_case(64);
}

#[kani::proof]
#[kani::unwind(12)]
#[kani::stub(crate::common::now, vnow)]
#[kani::stub(crate::net::EventLoops::wait_event, wait_event_stub)]
fn c14_select_timeout_le_64ms() {
    select_timeout_case(64_000);
}

/// Negative timeval fields are rejected with EINVAL (as the native call does) - never a panic inside
/// the `extern "C"` function.
#[kani::proof]
#[kani::unwind(4)]
#[kani::stub(crate::common::now, vnow)]
#[kani::stub(crate::net::EventLoops::wait_event, wait_event_stub)]
fn c14_select_invalid_timeval() {
    let sec: libc::time_t = kani::any();
    let usec: libc::suseconds_t = kani::any();
    kani::assume(sec < 0 || usec < 0);
    let r = select_case(sec, usec, 0);
    kani::assert(r == -1, "a negative timeout is rejected");
    kani::assert(errno() == libc::EINVAL, "with EINVAL as the native call does");
    unsafe {
        kani::assert(WAITS == 0, "WAITS == 0");
    }
    kani::cover!(sec < 0, "negative seconds");
    kani::cover!(usec < 0, "negative microseconds");
}

// ---------------------------------------------------------------- poll / select: EVERY timeout value
// The slice loops count the timeout down in 1,2,4,8,16,16,... ms steps, so an unrolled run only reaches
// small timeouts. These harnesses make the *whole* argument range symbolic and let the scripted kernel
// report readiness at the k-th probe (k <= 6 symbolic): every execution has <= 7 iterations, and the
// assertion is about what the hook did up to its return:
//   returned 0 ("timed out")  =>  the waits it requested add up to at least the caller's timeout
//   any return                =>  it never requested more than the caller's timeout (rounded up to 1 ms)
// A conversion that wraps, truncates or mis-scales some value shows up as "timed out after a few ms
// although the caller asked for more" for that value.
static mut SEL_READY_AT: u32 = u32::MAX;
extern "C" fn mock_select_ready_at(
    _n: c_int,
    _r: *mut libc::fd_set,
    _w: *mut libc::fd_set,
    _e: *mut libc::fd_set,
    _t: *mut libc::timeval,
) -> c_int {
    unsafe {
        SEL_CALLS += 1;
        if SEL_CALLS > SEL_READY_AT {
            1
        } else {
            0
        }
    }
}

#[kani::proof]
#[kani::unwind(9)]
#[kani::stub(crate::common::now, vnow)]
#[kani::stub(crate::net::EventLoops::wait_event, wait_event_stub)]
fn c14_select_any_timeval_first_slices() {
    let sec: libc::time_t = kani::any();
    let usec: libc::suseconds_t = kani::any();
    kani::assume(sec >= 0);
    kani::assume(usec >= 0 && usec < 1_000_000); // every valid timeval; tv_usec >= 10^6 is outside (the kernel rejects it)
    let k: u32 = kani::any();
    kani::assume(k <= 6);
    reset(0);
    unsafe {
        SEL_CALLS = 0;
        SEL_READY_AT = k;
    }
    let f: extern "C" fn(c_int, *mut libc::fd_set, *mut libc::fd_set, *mut libc::fd_set, *mut libc::timeval) -> c_int =
        mock_select_ready_at;
    let mut tv = libc::timeval { tv_sec: sec, tv_usec: usec };
    let r = select(Some(&f), 0, std::ptr::null_mut(), std::ptr::null_mut(), std::ptr::null_mut(), &raw mut tv);
    unsafe {
        kani::assert(r == 0 || r == 1, "select returns the kernel's result or 0");
        kani::assert(!NONE_WAIT, "select: a finite timeout never waits unbounded");
        // k <= 6 probes request at most 1+2+4+8+16+16 ms, so the nanosecond total below cannot overflow
        let req_ns = REQ_SECS * 1_000_000_000 + REQ_NANOS;
        kani::assert(REQ_SECS == 0 && REQ_NANOS <= 47_000_000, "select: slices are 1,2,4,8,16,16 ms at most");
        if r == 0 {
            // timed out: only legal when the whole requested time has been waited for
            kani::assert(sec == 0, "select: a timeout of a second or more cannot expire within the first 47 ms");
            kani::assert(req_ns >= (usec as u64) * 1_000, "select must not return earlier than the requested timeout");
        }
        if sec == 0 {
            kani::assert(req_ns < (usec as u64) * 1_000 + 1_000_000, "select must not wait longer than the requested timeout rounded up to 1 ms");
        }
        if r == 1 {
            kani::assert(SEL_CALLS == k + 1, "select returns at the first ready probe");
        }
    }
    kani::cover!(r == 0 && usec == 31_000, "times out exactly at the 5th slice");
    kani::cover!(r == 1 && sec == libc::time_t::MAX, "maximal seconds, ended by readiness");
    kani::cover!(r == 1 && sec == 4_294_968, "a timeout just above 2^32 ms");
}

#[kani::proof]
#[kani::unwind(9)]
#[kani::stub(crate::common::now, vnow)]
#[kani::stub(crate::net::EventLoops::wait_event, wait_event_stub)]
fn c14_poll_any_timeout_first_slices() {
    let t: c_int = kani::any();
    let k: u32 = kani::any();
    kani::assume(k <= 6);
    reset(0);
    unsafe {
        POLL_CALLS = 0;
        POLL_READY_AT = k;
        POLL_BAD_TIMEOUT = false;
    }
    let f: extern "C" fn(*mut libc::pollfd, libc::nfds_t, c_int) -> c_int = mock_poll;
    let mut fds = libc::pollfd { fd: 3, events: libc::POLLIN, revents: 0 };
    let r = poll(Some(&f), &raw mut fds, 1, t);
    unsafe {
        kani::assert(r == 0 || r == 1, "poll returns the kernel's result or 0");
        kani::assert(!POLL_BAD_TIMEOUT, "poll: kernel only probed with timeout 0");
        kani::assert(!NONE_WAIT && REQ_SECS == 0 && REQ_NANOS <= 47_000_000, "poll: slices are 1,2,4,8,16,16 ms at most");
        if r == 0 {
            kani::assert(t >= 0, "poll: an infinite timeout never expires");
            kani::assert(REQ_NANOS >= (t as u64) * 1_000_000, "poll must not return earlier than the requested timeout");
        }
        if t >= 0 {
            kani::assert(REQ_NANOS <= (t as u64) * 1_000_000, "poll must not wait longer than the requested timeout");
        }
        if r == 1 {
            kani::assert(POLL_CALLS == k + 1, "poll returns at the first ready probe");
        }
    }
    kani::cover!(r == 0 && t == 31, "times out exactly at the 5th slice");
    kani::cover!(r == 1 && t == c_int::MAX - 1, "largest finite timeout, ended by readiness");
    kani::cover!(r == 1 && t < 0, "infinite timeout, ended by readiness");
}

// ---------------------------------------------------------------- pthread_cond_timedwait
static mut COND_CALLS: u32 = 0x147;
static mut COND_EARLY: bool = false;
extern "C" fn mock_cond_timedwait(
    _c: *mut libc::pthread_cond_t,
    _m: *mut libc::pthread_mutex_t,
    abstime: *const libc::timespec,
) -> c_int {
    // contract of the native call when nobody signals: returns ETIMEDOUT, not before `abstime`
    unsafe {
        COND_CALLS += 1;
        let ts = *abstime;
        if ts.tv_sec < 0 || ts.tv_nsec < 0 || ts.tv_nsec > 999_999_999 {
            return libc::EINVAL;
        }
        let abs = (ts.tv_sec as u64).saturating_mul(1_000_000_000).saturating_add(ts.tv_nsec as u64);
        if abs > VNOW {
            VNOW = abs;
        }
    }
    libc::ETIMEDOUT
}

extern "C" fn mock_cond_signalled(
    _c: *mut libc::pthread_cond_t,
    _m: *mut libc::pthread_mutex_t,
    _abstime: *const libc::timespec,
) -> c_int {
    unsafe { COND_CALLS += 1 };
    0
}

/// EVERY valid deadline that lies in the future - however far: any tv_sec up to i64::MAX, whose nanosecond count does not fit
/// 64 bits - is treated as a future deadline: the hook hands the wait to the native call (which is signalled at once here)
/// and returns its 0; it never reports ETIMEDOUT without having waited.
#[kani::proof]
#[kani::unwind(6)]
#[kani::stub(crate::common::now, vnow)]
#[kani::stub(crate::net::EventLoops::wait_event, wait_event_stub)]
fn c14_cond_timedwait_far_deadline_is_in_the_future() {
    let now0: u64 = kani::any();
    kani::assume(now0 < 4_000_000_000); // (as above: keeps the / 1e9 of the slice computation tractable)
    let sec: libc::time_t = kani::any();
    let nsec: libc::c_long = kani::any();
    kani::assume(sec >= 5);
    kani::assume((0..=999_999_999).contains(&nsec));
    reset(now0);
    unsafe {
        COND_CALLS = 0;
    }
    let f: extern "C" fn(*mut libc::pthread_cond_t, *mut libc::pthread_mutex_t, *const libc::timespec) -> c_int =
        mock_cond_signalled;
    let ts = libc::timespec { tv_sec: sec, tv_nsec: nsec };
    let r = pthread_cond_timedwait(Some(&f), std::ptr::null_mut(), std::ptr::null_mut(), &raw const ts);
    unsafe {
        kani::assert(COND_CALLS == 1, "a deadline in the future is waited for through the native call");
        kani::assert(r == 0, "the native call's result (signalled) is returned");
    }
    kani::cover!(sec >= 18_446_744_074, "deadline beyond 2^64 ns");
    kani::cover!(sec == libc::time_t::MAX, "largest tv_sec");
}

/// Nobody signals: for every deadline within 25 ms of "now" the call returns ETIMEDOUT, and not
/// before the deadline; deadlines in the past return ETIMEDOUT at once; invalid timespecs EINVAL.
#[kani::proof]
#[kani::unwind(6)]
#[kani::stub(crate::common::now, vnow)]
#[kani::stub(crate::net::EventLoops::wait_event, wait_event_stub)]
fn c14_cond_timedwait_deadline() {
    let now0: u64 = kani::any();
    kani::assume(now0 < 4_000_000_000); // keeps the / 1e9 and % 1e9 of the code tractable (stated bound)
    let sec: libc::time_t = kani::any();
    let nsec: libc::c_long = kani::any();
    kani::assume((0..=4).contains(&sec));
    kani::assume((-1..=1_000_000_000).contains(&nsec));
    reset(now0);
    unsafe {
        COND_CALLS = 0;
    }
    let valid = nsec >= 0 && nsec <= 999_999_999;
    let deadline = (sec as u64) * 1_000_000_000 + if valid { nsec as u64 } else { 0 };
    kani::assume(!valid || deadline <= now0 + 25_000_000);
    let f: extern "C" fn(*mut libc::pthread_cond_t, *mut libc::pthread_mutex_t, *const libc::timespec) -> c_int =
        mock_cond_timedwait;
    let ts = libc::timespec { tv_sec: sec, tv_nsec: nsec };
    let r = pthread_cond_timedwait(Some(&f), std::ptr::null_mut(), std::ptr::null_mut(), &raw const ts);
    unsafe {
        if valid {
            kani::assert(r == libc::ETIMEDOUT, "nobody signalled => ETIMEDOUT");
            kani::assert(VNOW >= deadline, "never returns before the deadline");
            kani::assert(VNOW <= deadline.max(now0) + u64::from(WAITS + COND_CALLS) * EPS_MAX, "returns no later than the deadline plus bounded slack");
        } else {
            kani::assert(r == libc::EINVAL, "invalid timespec => EINVAL");
            kani::assert(WAITS == 0 && COND_CALLS == 0, "WAITS == 0 && COND_CALLS == 0");
        }
    }
    kani::cover!(valid && deadline > now0 + 20_000_000, "deadline needs several slices");
    kani::cover!(valid && deadline <= now0, "deadline already passed");
    kani::cover!(!valid, "invalid timespec");
}
