// C03 (concurrent part) - the shared queue's length counter under two racing operations
// (mounted under core/src/common/work_steal.rs, std atomics of that file replaced by the yielding
// model, E5). One pre-emption: thread B's whole operation runs at one symbolic scheduling point
// inside thread A's operation (each Injector operation and each atomic operation is one), or after.
use super::*;

// (statics have distinctive non-zero initial values and are explicitly initialised: Kani 0.68 can alias a
// constant allocation with a static whose initial bytes are identical, see c16_io.rs)
static mut QP: *const WorkStealQueue<u8> = std::ptr::without_provenance(0x31);
static mut B_DONE: bool = true; // (initial value is NOT the reset value on purpose, see the note above)
static mut B_KIND: u8 = 0x32;
static mut B_POPPED: Option<u8> = Some(0x37);

fn thread_b() {
    unsafe {
        B_DONE = true;
        let q = &*QP;
        if B_KIND == 0 {
            q.push(200);
        } else {
            B_POPPED = q.pop();
        }
    }
}
fn hook(_site: u32) {
    unsafe {
        if !B_DONE && kani::any::<bool>() {
            thread_b();
        }
    }
}

/// Two operations (push/push, push/pop, pop/push, pop/pop) race on the shared queue that already
/// holds `pre` items. Afterwards nothing is lost or duplicated, and the reported length equals the
/// number of items the queue holds.
#[kani::proof]
#[kani::unwind(8)]
fn c03_ws_global_race() {
    let q: WorkStealQueue<u8> = WorkStealQueue::new(1, 2);
    let pre: u8 = kani::any();
    kani::assume(pre <= 2);
    let mut i = 0;
    while i < pre {
        q.push(10 + i);
        i += 1;
    }
    let a_kind: u8 = kani::any();
    kani::assume(a_kind <= 1);
    unsafe {
        QP = &raw const q;
        B_DONE = false;
        B_KIND = kani::any();
        kani::assume(B_KIND <= 1);
        B_POPPED = None;
    }
    verif_rt::set_yield_hook(Some(hook));
    let a_popped = if a_kind == 0 {
        q.push(100);
        None
    } else {
        q.pop()
    };
    verif_rt::set_yield_hook(None);
    let preempted = unsafe { B_DONE };
    if !preempted {
        thread_b();
    }
    // quiescence: count what the queue really holds by draining the injector directly
    let reported = q.len();
    let mut held = 0usize;
    let mut seen100 = a_popped == Some(100) || unsafe { B_POPPED } == Some(100);
    let mut seen200 = a_popped == Some(200) || unsafe { B_POPPED } == Some(200);
    let mut k = 0;
    while k < 5 {
        match q.shared_queue.steal() {
            Steal::Success(v) => {
                held += 1;
                if v == 100 {
                    kani::assert(!seen100, "an item is never returned twice");
                    seen100 = true;
                }
                if v == 200 {
                    kani::assert(!seen200, "an item is never returned twice");
                    seen200 = true;
                }
            }
            _ => {}
        }
        k += 1;
    }
    let pushes = (a_kind == 0) as usize + (unsafe { B_KIND } == 0) as usize;
    let pops = a_popped.is_some() as usize + unsafe { B_POPPED }.is_some() as usize;
    kani::assert(held + pops == pre as usize + pushes, "every pushed item is either popped once or still queued");
    if a_kind == 0 {
        kani::assert(seen100, "the item pushed by thread A is not lost");
    }
    if unsafe { B_KIND } == 0 {
        kani::assert(seen200, "the item pushed by thread B is not lost");
    }
    kani::assert(reported == held, "the shared queue's reported length equals the number of items it holds");
    kani::cover!(preempted && a_kind == 0 && unsafe { B_KIND } == 0, "two racing pushes");
    kani::cover!(preempted && a_kind == 1 && unsafe { B_KIND } == 1 && pre == 2, "two racing pops");
    q.len.verif_set(0);
    core::mem::forget(q);
}
