// C23 - stack growth runs the callback with room to spare and restores bookkeeping (non-unwinding half)
// (mounted under core/src/coroutine/korosensei.rs).
//
// Real code: Coroutine::{maybe_grow_with, remaining_stack, stack_infos, stack_ptr_in_bounds} - coroutine path and
// plain-thread path. corosensei model: `on_stack(stack, f)` runs f and drops the segment, `DefaultStack::new(n)` hands out
// a fresh segment disjoint from every earlier one (or fails when told to); psm model: the harness sets the stack pointer.
// Outside: restoration after UNWINDING (Kani has no unwinding) - that is where the thread path (no guard) and the
// coroutine path (RAII guard) differ.
use super::*;
use crate::coroutine::suspender::Suspender;

type Co = Coroutine<'static, (), u8, Option<usize>>;

fn fmt_stub(_args: std::fmt::Arguments<'_>) -> String {
    String::new()
}
/// E6: common::page_size() asks sysconf (FFI, nondeterministic under Kani and then "negative" fails its expect)
fn page_size_stub() -> usize {
    4096
}

static mut INSIDE_DEPTH: usize = 0x231;
static mut INSIDE_LAST: (usize, usize) = (0x232, 0x233);
static mut INNER_RESULT: u32 = 0x234;

fn new_co() -> Co {
    Coroutine::new(Some(String::from("c23")), |_: &Suspender<(), u8>, ()| None, None, None).expect("create coroutine")
}

/// Coroutine path, nesting depth 2: for every red zone, stack size and stack pointer position.
#[kani::proof]
#[kani::unwind(5)]
#[kani::stub(alloc::fmt::format, fmt_stub)]
#[kani::stub(crate::common::page_size, page_size_stub)]
fn c23_grow_in_coroutine() {
    let co = new_co();
    Co::init_current(&co);
    // (read through references: cloning the VecDeque of segments three times made the query run out of memory)
    kani::assert(co.stack_infos_ref().len() == 1, "a new coroutine reports exactly its own stack segment");
    let seg0 = *co.stack_infos_ref().back().unwrap();
    // the stack pointer is somewhere inside the coroutine's segment
    let sp: usize = kani::any();
    kani::assume(sp >= seg0.stack_bottom && sp <= seg0.stack_top);
    psm::verif_set_stack_pointer(sp);
    let red: usize = kani::any();
    let size: usize = kani::any();
    kani::assume(size <= (1 << 24));
    let alloc_fails: bool = kani::any();
    corosensei::stack::verif_fail_next_stack(alloc_fails);
    let token: u32 = kani::any();
    let remaining = sp - seg0.stack_bottom;
    let r = Co::maybe_grow_with(red, size, || {
        let c = Co::current().expect("current coroutine inside the callback");
        let infos = c.stack_infos_ref();
        unsafe {
            INSIDE_DEPTH = infos.len();
            let last = *infos.back().unwrap();
            INSIDE_LAST = (last.stack_bottom, last.stack_top);
        }
        token
    });
    unsafe {
        if remaining >= red {
            kani::assert(r.as_ref().ok() == Some(&token), "with enough room the callback runs and its value is returned");
            kani::assert(INSIDE_DEPTH == 1, "with at least the red zone available no new segment is created");
        } else if alloc_fails {
            kani::assert(r.is_err(), "a failed segment allocation is reported as an error");
        } else {
            kani::assert(r.as_ref().ok() == Some(&token), "the callback runs on the fresh segment and its value is returned");
            kani::assert(INSIDE_DEPTH == 2, "while the callback runs exactly one new segment is reported");
            kani::assert(INSIDE_LAST.1 - INSIDE_LAST.0 >= size, "the fresh segment has at least the requested size");
            kani::assert(INSIDE_LAST.0 >= seg0.stack_top || INSIDE_LAST.1 <= seg0.stack_bottom, "the fresh segment is disjoint from the coroutine's own");
        }
    }
    let after = co.stack_infos_ref();
    kani::assert(after.len() == 1 && *after.back().unwrap() == seg0, "after the call the reported stack segments are as they were before");
    kani::assert(corosensei::stack::verif_live_stacks() == 1, "the fresh segment is released after the call");
    kani::cover!(remaining < red && !alloc_fails, "grown");
    kani::cover!(remaining >= red, "not grown");
    corosensei::stack::verif_fail_next_stack(false);
    Co::clean_current();
    core::mem::forget(co);
}

/// Plain-thread path: first call always grows (no segment known), a nested call decides from the cached segment; afterwards
/// the thread's list is as before, so the next top-level call grows again.
#[kani::proof]
#[kani::unwind(5)]
#[kani::stub(alloc::fmt::format, fmt_stub)]
#[kani::stub(crate::common::page_size, page_size_stub)]
fn c23_grow_in_thread() {
    let red: usize = kani::any();
    let size: usize = kani::any();
    kani::assume(size <= (1 << 24));
    let inner_sp_off: usize = kani::any();
    let token: u32 = kani::any();
    let live0 = corosensei::stack::verif_live_stacks();
    let r = Co::maybe_grow_with(red, size, || {
        // now running "on" the fresh segment: place the stack pointer inside it and nest once
        let (depth, top, bottom) = corosensei::verif_on_stack();
        unsafe { INSIDE_DEPTH = depth };
        kani::assume(inner_sp_off <= top - bottom);
        psm::verif_set_stack_pointer(bottom + inner_sp_off);
        let inner = Co::maybe_grow_with(red, size, || {
            let (d2, _, _) = corosensei::verif_on_stack();
            unsafe { INNER_RESULT = d2 as u32 };
            token
        });
        kani::assert(inner.as_ref().ok() == Some(&token), "the nested callback's value is returned");
        unsafe {
            if inner_sp_off >= red {
                kani::assert(INNER_RESULT == 1, "nested call with at least the red zone left on the cached segment does not grow");
            } else {
                kani::assert(INNER_RESULT == 2, "nested call without the red zone grows once more");
            }
        }
        // back on this (outer) segment after the nested call returned: the next decision must be made against THIS segment again
        let again = Co::maybe_grow_with(red, size, || corosensei::verif_on_stack().0);
        if inner_sp_off >= red {
            kani::assert(again.ok() == Some(1), "after a nested call returned, a callback that still has the red zone on the outer segment runs in place");
        } else {
            kani::assert(again.ok() == Some(2), "after a nested call returned, growth is decided against the outer segment again");
        }
        token
    });
    kani::assert(r.ok() == Some(token), "the callback's value is returned");
    unsafe {
        kani::assert(INSIDE_DEPTH == 1, "in a plain thread the first call runs the callback on a fresh segment");
    }
    kani::assert(corosensei::stack::verif_live_stacks() == live0, "every segment is released after the call");
    // the thread's bookkeeping is as before: a new top-level call grows again
    let r2 = Co::maybe_grow_with(red, size, || corosensei::verif_on_stack().0);
    kani::assert(r2.ok() == Some(1), "after the call the thread's growth decisions are as they were before it");
    kani::cover!(inner_sp_off >= red, "nested call stays");
    kani::cover!(inner_sp_off < red, "nested call grows");
}
