// C03 (concurrent part) for the priority queue - mounted under core/src/common/ordered_work_steal.rs
// (E5 on that file). Same encoding as c03_ws_conc.rs.
use super::*;

// (statics have distinctive non-zero initial values and are explicitly initialised: Kani 0.68 can alias a
// constant allocation with a static whose initial bytes are identical, see c16_io.rs)
static mut QP: *const OrderedWorkStealQueue<u8> = std::ptr::without_provenance(0x33);
static mut B_DONE: bool = true; // (initial value is NOT the reset value on purpose, see the note above)
static mut B_KIND: u8 = 0x34;
static mut B_PRIO: c_longlong = 0x35;
static mut B_POPPED: Option<u8> = Some(0x37);

fn thread_b() {
    unsafe {
        B_DONE = true;
        let q = &*QP;
        if B_KIND == 0 {
            q.push_with_priority(B_PRIO, 200);
        } else {
            B_POPPED = q.pop();
        }
    }
}
fn hook(_site: u32) {
    unsafe {
        if !B_DONE && kani::any::<bool>() {
            thread_b();
        }
    }
}

/// The two operation kinds are concrete per harness (4 instances: the symbolic-kind version did not finish in 900 s);
/// the pre-fill, both priorities and the pre-emption point stay symbolic.
fn ows_global_race(a_kind: u8, b_kind: u8) {
    let q: OrderedWorkStealQueue<u8> = OrderedWorkStealQueue::new(1, 2);
    let pre: u8 = kani::any();
    kani::assume(pre <= 2);
    let mut i = 0;
    while i < pre {
        q.push_with_priority(0, 10 + i);
        i += 1;
    }
    let a_prio: c_longlong = if kani::any() { 0 } else { 1 };
    unsafe {
        QP = &raw const q;
        B_DONE = false;
        B_KIND = b_kind;
        B_PRIO = if kani::any() { 0 } else { 1 };
        B_POPPED = None;
    }
    verif_rt::set_yield_hook(Some(hook));
    let a_popped = if a_kind == 0 {
        q.push_with_priority(a_prio, 100);
        None
    } else {
        q.pop()
    };
    verif_rt::set_yield_hook(None);
    let preempted = unsafe { B_DONE };
    if !preempted {
        thread_b();
    }
    let reported = q.len();
    let mut held = 0usize;
    let mut seen100 = a_popped == Some(100) || unsafe { B_POPPED } == Some(100);
    let mut seen200 = a_popped == Some(200) || unsafe { B_POPPED } == Some(200);
    for entry in &q.shared_queue {
        let mut k = 0;
        while k < 5 {
            if let Steal::Success(v) = entry.value().steal() {
                held += 1;
                if v == 100 {
                    kani::assert(!seen100, "an item is never returned twice");
                    seen100 = true;
                }
                if v == 200 {
                    kani::assert(!seen200, "an item is never returned twice");
                    seen200 = true;
                }
            }
            k += 1;
        }
    }
    let pushes = (a_kind == 0) as usize + (unsafe { B_KIND } == 0) as usize;
    let pops = a_popped.is_some() as usize + unsafe { B_POPPED }.is_some() as usize;
    kani::assert(held + pops == pre as usize + pushes, "every pushed item is either popped once or still queued");
    if a_kind == 0 {
        kani::assert(seen100, "the item pushed by thread A is not lost");
    }
    if unsafe { B_KIND } == 0 {
        kani::assert(seen200, "the item pushed by thread B is not lost");
    }
    kani::assert(reported == held, "the shared queue's reported length equals the number of items it holds");
    kani::cover!(preempted, "thread B ran inside thread A's operation");
    kani::cover!(!preempted, "thread B ran after thread A's operation");
    q.len.verif_set(0);
    core::mem::forget(q);
}

macro_rules! ows_race {
    ($name:ident, $a:expr, $b:expr) => {
        #[kani::proof]
        #[kani::unwind(8)]
        fn $name() {
            ows_global_race($a, $b);
        }
    };
}
ows_race!(c03_ows_race_push_push, 0, 0);
ows_race!(c03_ows_race_push_pop, 0, 1);
ows_race!(c03_ows_race_pop_push, 1, 0);
ows_race!(c03_ows_race_pop_pop, 1, 1);
