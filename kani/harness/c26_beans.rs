// C26 - named singletons are unique under concurrent first use (mounted under core/src/common/beans.rs).
//
// Kani has no threads. The race the property names (two first lookups of the same name) is encoded
// with one pre-emption (DESIGN §2.7): thread A runs the real lookup; at every scheduling point inside
// it (each dashmap-model operation and - with the E5 rewrite of beans.rs - each atomic operation) a
// symbolic boolean decides whether thread B's WHOLE lookup runs there. If B was never scheduled
// inside A it runs after A. All orderings are sequentially consistent.
use super::*;

#[derive(Default)]
struct Bean(u8);

static mut B_DONE: bool = false;
// (statics have distinctive non-zero initial values and are explicitly initialised: Kani 0.68 can alias a
// constant allocation with a static whose initial bytes are identical, see c16_io.rs)
static mut B_PTR: usize = 0x261;
static mut B_AT_SITE: u32 = 0x262;

/// which lookup the two threads use: the shared one (`get_or_default`) or the mutable one (`get_mut_or_default`)
static mut MUTABLE: bool = true;
fn lookup() -> &'static Bean {
    if unsafe { MUTABLE } {
        unsafe { BeanFactory::get_mut_or_default::<Bean>("b") }
    } else {
        BeanFactory::get_or_default::<Bean>("b")
    }
}

fn thread_b() {
    let b: &Bean = lookup();
    unsafe {
        B_DONE = true;
        B_PTR = std::ptr::from_ref(b) as usize;
    }
}

// The pre-emption point is case-split, one harness per position (DESIGN 2.6-3): the factory stores addresses as integers
// and turns them back into references, which CBMC can only follow cheaply when the schedule is concrete. The split is
// complete: `SITES` counts the scheduling points thread A's lookup really passes and every harness asserts that it is
// below the number of positions instantiated.
static mut SITES: u32 = 0x263;
static mut TARGET: u32 = 0x264;
const POSITIONS: u32 = 8;

fn hook(site: u32) {
    unsafe {
        let k = SITES;
        SITES += 1;
        if !B_DONE && k == TARGET {
            B_AT_SITE = site;
            thread_b();
        }
    }
}

/// Two threads first ask for the same named object; thread B's whole lookup runs at scheduling point `target` of
/// thread A's lookup (or after it when A passes fewer points): both get the same instance and a later lookup returns it.
fn two_first_lookups(target: u32, mutable: bool) {
    unsafe {
        MUTABLE = mutable;
        B_DONE = false;
        B_PTR = 0;
        B_AT_SITE = 0;
        SITES = 0;
        TARGET = target;
    }
    verif_rt::set_yield_hook(Some(hook));
    let a: &Bean = lookup();
    verif_rt::set_yield_hook(None);
    let preempted = unsafe { B_DONE };
    if !preempted {
        thread_b();
    }
    let a_ptr = std::ptr::from_ref(a) as usize;
    let later = BeanFactory::get_bean::<Bean>("b").map(|b| std::ptr::from_ref(b) as usize);
    unsafe {
        kani::assert(SITES <= POSITIONS, "the case split covers every scheduling point of the lookup");
        kani::assert(a_ptr == B_PTR, "threads that first ask for the same named object at the same time receive the same instance");
        kani::assert(later == Some(a_ptr), "the instance handed out stays the one later lookups return");
    }
    kani::cover!(true, "reached");
}

macro_rules! c26_preempt_at {
    ($name:ident, $k:expr) => {
        #[kani::proof]
        #[kani::unwind(6)]
        fn $name() {
            two_first_lookups($k, false);
        }
    };
    ($name:ident, $k:expr, mutable) => {
        #[kani::proof]
        #[kani::unwind(6)]
        fn $name() {
            two_first_lookups($k, true);
        }
    };
}
c26_preempt_at!(c26_first_lookups_preempt_at_0, 0);
c26_preempt_at!(c26_first_lookups_preempt_at_1, 1);
c26_preempt_at!(c26_first_lookups_preempt_at_2, 2);
c26_preempt_at!(c26_first_lookups_preempt_at_3, 3);
c26_preempt_at!(c26_first_lookups_preempt_at_4, 4);
c26_preempt_at!(c26_first_lookups_preempt_at_5, 5);
c26_preempt_at!(c26_first_lookups_preempt_at_6, 6);
c26_preempt_at!(c26_first_lookups_preempt_at_7, 7);
c26_preempt_at!(c26_first_lookups_one_after_the_other, 1000);
// the same race through the mutable lookup, `get_mut_or_default`
c26_preempt_at!(c26_first_mut_lookups_preempt_at_0, 0, mutable);
c26_preempt_at!(c26_first_mut_lookups_preempt_at_1, 1, mutable);
c26_preempt_at!(c26_first_mut_lookups_preempt_at_2, 2, mutable);
c26_preempt_at!(c26_first_mut_lookups_preempt_at_3, 3, mutable);
c26_preempt_at!(c26_first_mut_lookups_preempt_at_4, 4, mutable);
c26_preempt_at!(c26_first_mut_lookups_preempt_at_5, 5, mutable);
c26_preempt_at!(c26_first_mut_lookups_preempt_at_6, 6, mutable);
c26_preempt_at!(c26_first_mut_lookups_preempt_at_7, 7, mutable);
c26_preempt_at!(c26_first_mut_lookups_one_after_the_other, 1000, mutable);

/// Sequential sanity: repeated lookups return one instance; init_bean does not replace it.
#[kani::proof]
#[kani::unwind(6)]
fn c26_sequential_lookups() {
    let a = std::ptr::from_ref(BeanFactory::get_or_default::<Bean>("c")) as usize;
    let b = std::ptr::from_ref(BeanFactory::get_or_default::<Bean>("c")) as usize;
    BeanFactory::init_bean("c", Bean(7));
    let c = BeanFactory::get_bean::<Bean>("c").map(|x| std::ptr::from_ref(x) as usize);
    kani::assert(a == b, "a second lookup returns the first instance");
    kani::assert(c == Some(a), "init_bean does not replace an existing instance");
    kani::cover!(true, "reached");
}

/// Names that differ in ANY byte (symbolic position in a 40-byte name) denote different objects: each name gets its own
/// instance, lookups by either name return that name's instance, and re-initialising one does not touch the other.
#[kani::proof]
#[kani::unwind(43)]
fn c26_names_that_differ_give_different_instances() {
    const L: usize = 40;
    let n1 = [b'a'; L];
    let mut n2 = [b'a'; L];
    let p: usize = kani::any();
    kani::assume(p < L);
    n2[p] = b'b';
    let (s1, s2) = unsafe { (std::str::from_utf8_unchecked(&n1), std::str::from_utf8_unchecked(&n2)) };
    let a = std::ptr::from_ref(BeanFactory::get_or_default::<Bean>(s1)) as usize;
    let b = std::ptr::from_ref(BeanFactory::get_or_default::<Bean>(s2)) as usize;
    kani::assert(a != b, "different names give different instances");
    let a2 = BeanFactory::get_bean::<Bean>(s1).map(|x| std::ptr::from_ref(x) as usize);
    let b2 = BeanFactory::get_bean::<Bean>(s2).map(|x| std::ptr::from_ref(x) as usize);
    kani::assert(a2 == Some(a) && b2 == Some(b), "each name keeps returning its own instance");
    kani::cover!(p == L - 1, "names that differ only in their last byte");
    kani::cover!(p == 0, "names that differ in their first byte");
}
