// C26 - named singletons are unique under concurrent first use (mounted under core/src/common/beans.rs).
//
// Kani has no threads. The race the property names (two first lookups of the same name) is encoded
// with one pre-emption (DESIGN §2.7): thread A runs the real lookup; at every scheduling point inside
// it (each dashmap-model operation and - with the E5 rewrite of beans.rs - each atomic operation) a
// symbolic boolean decides whether thread B's WHOLE lookup runs there. If B was never scheduled
// inside A it runs after A. All orderings are sequentially consistent.
use super::*;

#[derive(Default)]
struct Bean(u8);

static mut B_DONE: bool = false;
// (statics have distinctive non-zero initial values and are explicitly initialised: Kani 0.68 can alias a
// constant allocation with a static whose initial bytes are identical, see c16_io.rs)
static mut B_PTR: usize = 0x261;
static mut B_AT_SITE: u32 = 0x262;

fn thread_b() {
    let b: &Bean = BeanFactory::get_or_default::<Bean>("b");
    unsafe {
        B_DONE = true;
        B_PTR = std::ptr::from_ref(b) as usize;
    }
}

fn hook(site: u32) {
    unsafe {
        if !B_DONE && kani::any::<bool>() {
            B_AT_SITE = site;
            thread_b();
        }
    }
}

/// Two threads first ask for the same named object: both get the same instance and a later lookup
/// returns that instance.
#[kani::proof]
#[kani::unwind(6)]
fn c26_two_first_lookups() {
    unsafe {
        B_DONE = false;
        B_PTR = 0;
        B_AT_SITE = 0;
    }
    verif_rt::set_yield_hook(Some(hook));
    let a: &Bean = BeanFactory::get_or_default::<Bean>("b");
    verif_rt::set_yield_hook(None);
    let preempted = unsafe { B_DONE };
    if !preempted {
        thread_b();
    }
    let a_ptr = std::ptr::from_ref(a) as usize;
    let later = BeanFactory::get_bean::<Bean>("b").map(|b| std::ptr::from_ref(b) as usize);
    unsafe {
        kani::assert(a_ptr == B_PTR, "threads that first ask for the same named object at the same time receive the same instance");
        kani::assert(later == Some(a_ptr), "the instance handed out stays the one later lookups return");
    }
    kani::cover!(preempted, "thread B ran inside thread A's lookup");
    kani::cover!(!preempted, "thread B ran after thread A's lookup");
}

/// Sequential sanity: repeated lookups return one instance; init_bean does not replace it.
#[kani::proof]
#[kani::unwind(6)]
fn c26_sequential_lookups() {
    let a = std::ptr::from_ref(BeanFactory::get_or_default::<Bean>("c")) as usize;
    let b = std::ptr::from_ref(BeanFactory::get_or_default::<Bean>("c")) as usize;
    BeanFactory::init_bean("c", Bean(7));
    let c = BeanFactory::get_bean::<Bean>("c").map(|x| std::ptr::from_ref(x) as usize);
    kani::assert(a == b, "a second lookup returns the first instance");
    kani::assert(c == Some(a), "init_bean does not replace an existing instance");
    kani::cover!(true, "reached");
}
