// C07 (one step) - coroutine lifecycle state machine (mounted under core/src/coroutine/state.rs).
//
// Real code: ready / running / suspend / syscall / cancel / complete / error / change_state and the
// listener broadcast (listener.rs). Every transition function is run from an ARBITRARY current
// state (all 7 variants, symbolic payloads, symbolic clock) with symbolic arguments.
use super::*;
use crate::coroutine::local::CoroutineLocal;
use crate::coroutine::suspender::Suspender;

// The coroutine is instantiated with Yield = u8 (not the scheduler's `()`): listeners are `dyn Listener<Yield, Return>`, and at
// the scheduler's own instantiation the pool's `CoroutineCreator` is a possible target of every listener call, which drags the
// whole pool/scheduler/queue code into each query (10+ GB). A distinct Yield type keeps the dispatch set to the recording
// listener, and makes the yielded payload observable.
type St = CoroutineState<u8, Option<usize>>;
type Co = Coroutine<'static, (), u8, Option<usize>>;

// (statics have distinctive non-zero initial values and are explicitly initialised: Kani 0.68 can alias a
// constant allocation with a static whose initial bytes are identical, see c16_io.rs)
static mut VNOW: u64 = 0x71;
fn vnow() -> u64 {
    unsafe { VNOW }
}
fn fmt_stub(_args: std::fmt::Arguments<'_>) -> String {
    String::new()
}
/// E6: common::page_size() asks sysconf (FFI, nondeterministic under Kani and then "negative" fails its expect)
fn page_size_stub() -> usize {
    4096
}

// ---- recording listener
static mut N_CHANGED: u32 = 0x72;
static mut LAST_OLD: Option<St> = None;
static mut LAST_NEW: Option<St> = None;
static mut N_CB: [u32; 7] = [0x73; 7]; // ready running suspend syscall cancel complete error
static mut CB_OLD: Option<St> = None;
static mut CB_RESULT: Option<Option<usize>> = None;

// (not a zero-sized type: a boxed ZST listener is a dangling pointer, and CBMC's pointer checks reject the calls through it)
#[derive(Debug)]
struct Rec(u8);
impl Listener<u8, Option<usize>> for Rec {
    fn on_state_changed(&self, _: &CoroutineLocal, old: St, new: St) {
        unsafe {
            N_CHANGED += 1;
            LAST_OLD = Some(old);
            LAST_NEW = Some(new);
        }
    }
    fn on_ready(&self, _: &CoroutineLocal, old: St) {
        unsafe {
            N_CB[0] += 1;
            CB_OLD = Some(old);
        }
    }
    fn on_running(&self, _: &CoroutineLocal, old: St) {
        unsafe {
            N_CB[1] += 1;
            CB_OLD = Some(old);
        }
    }
    fn on_suspend(&self, _: &CoroutineLocal, old: St) {
        unsafe {
            N_CB[2] += 1;
            CB_OLD = Some(old);
        }
    }
    fn on_syscall(&self, _: &CoroutineLocal, old: St) {
        unsafe {
            N_CB[3] += 1;
            CB_OLD = Some(old);
        }
    }
    fn on_cancel(&self, _: &CoroutineLocal, old: St) {
        unsafe {
            N_CB[4] += 1;
            CB_OLD = Some(old);
        }
    }
    fn on_complete(&self, _: &CoroutineLocal, old: St, result: Option<usize>) {
        unsafe {
            N_CB[5] += 1;
            CB_OLD = Some(old);
            CB_RESULT = Some(result);
        }
    }
    fn on_error(&self, _: &CoroutineLocal, old: St, _message: &str) {
        unsafe {
            N_CB[6] += 1;
            CB_OLD = Some(old);
        }
    }
}

/// EVERY system-call name of the build: `SyscallName` is a fieldless `#[repr(C)]` enum whose last variant is `panicking`, so
/// its values are exactly the discriminants 0..=panicking (an earlier version drew from 4 names only and missed a change that
/// special-cased one particular name).
fn any_syscall_name() -> SyscallName {
    const _: () = assert!(std::mem::size_of::<SyscallName>() == 4);
    let d: u32 = kani::any();
    kani::assume(d <= SyscallName::panicking as u32);
    unsafe { std::mem::transmute::<u32, SyscallName>(d) }
}
fn any_syscall_state() -> SyscallState {
    match kani::any::<u8>() % 4 {
        0 => SyscallState::Executing,
        1 => SyscallState::Suspend(kani::any()),
        2 => SyscallState::Timeout,
        _ => SyscallState::Callback,
    }
}
fn any_opt() -> Option<usize> {
    if kani::any() {
        Some(kani::any())
    } else {
        None
    }
}
fn any_state() -> St {
    match kani::any::<u8>() % 7 {
        0 => CoroutineState::Ready,
        1 => CoroutineState::Running,
        2 => CoroutineState::Suspend(kani::any(), kani::any()),
        3 => CoroutineState::Syscall(kani::any(), any_syscall_name(), any_syscall_state()),
        4 => CoroutineState::Cancelled,
        5 => CoroutineState::Complete(any_opt()),
        _ => CoroutineState::Error("e"),
    }
}

fn kind_index(s: &St) -> usize {
    match s {
        CoroutineState::Ready => 0,
        CoroutineState::Running => 1,
        CoroutineState::Suspend(..) => 2,
        CoroutineState::Syscall(..) => 3,
        CoroutineState::Cancelled => 4,
        CoroutineState::Complete(_) => 5,
        CoroutineState::Error(_) => 6,
    }
}

/// Is old -> new an edge of the documented graph (given the clock)?
fn edge(old: &St, new: &St, now: u64) -> bool {
    match (old, new) {
        (CoroutineState::Ready, CoroutineState::Running) => true,
        (CoroutineState::Running, CoroutineState::Suspend(..))
        | (CoroutineState::Running, CoroutineState::Syscall(..))
        | (CoroutineState::Running, CoroutineState::Complete(_))
        | (CoroutineState::Running, CoroutineState::Error(_))
        | (CoroutineState::Running, CoroutineState::Cancelled) => true,
        (CoroutineState::Syscall(_, _, _), CoroutineState::Running) => true,
        (CoroutineState::Syscall(_, a, _), CoroutineState::Syscall(_, b, _)) => a == b,
        (CoroutineState::Suspend(_, ts), CoroutineState::Ready) => *ts <= now,
        (CoroutineState::Suspend(_, ts), CoroutineState::Running) => *ts <= now,
        _ => false,
    }
}

fn reset_rec() {
    unsafe {
        N_CHANGED = 0;
        LAST_OLD = None;
        LAST_NEW = None;
        N_CB = [0; 7];
        CB_OLD = None;
        CB_RESULT = None;
    }
}

fn total_cb() -> u32 {
    // (written without a loop: these harnesses run at unwind 3, see the macro)
    unsafe { N_CB[0] + N_CB[1] + N_CB[2] + N_CB[3] + N_CB[4] + N_CB[5] + N_CB[6] }
}

fn new_co() -> Co {
    {
        let probe: std::collections::VecDeque<u64> = std::collections::VecDeque::new();
        kani::assert(probe.capacity() == 0 && probe.len() == 0, "canary: VecDeque::new() is the empty constant (no constant/static aliasing)");
    }
    let mut co: Co = Coroutine::new(Some(String::from("c07")), |_: &Suspender<(), u8>, ()| None, None, None)
        .expect("create coroutine");
    co.add_listener(Rec(0x7c));
    co
}

/// Common oracle after one transition request.
fn check_step(co: &Co, old: St, res: &std::io::Result<()>, now: u64, silent_ok: bool) {
    let new = co.state();
    unsafe {
        match res {
            Err(_) => {
                kani::assert(new == old, "a refused transition leaves the state untouched");
                kani::assert(N_CHANGED == 0 && total_cb() == 0, "a refused transition notifies no listener");
            }
            Ok(()) => {
                if new == old && N_CHANGED == 0 {
                    kani::assert(silent_ok, "an accepted request either changes the state or is a documented no-op");
                    kani::assert(total_cb() == 0, "a no-op notifies no listener");
                } else {
                    kani::assert(edge(&old, &new, now), "every accepted change follows an edge of the documented graph");
                    kani::assert(N_CHANGED == 1, "each change is reported exactly once");
                    kani::assert(LAST_OLD == Some(old) && LAST_NEW == Some(new), "the change is reported with the true old and new state");
                    kani::assert(total_cb() == 1 && N_CB[kind_index(&new)] == 1, "exactly the per-state callback of the new state runs once");
                    kani::assert(CB_OLD == Some(old), "the per-state callback sees the true old state");
                }
                let terminal = matches!(old, CoroutineState::Complete(_) | CoroutineState::Error(_) | CoroutineState::Cancelled);
                kani::assert(!terminal || (new == old && N_CHANGED == 0), "a finished coroutine never leaves its terminal state");
            }
        }
    }
}

macro_rules! c07_step {
    ($name:ident, |$co:ident, $old:ident| $call:expr, |$o2:ident| $silent:expr) => {
        // unwind 3: one listener => the broadcast loop makes 1 iteration + the exit test. The bound also limits the recursion
        // CBMC sees through `dyn Listener` (the coroutine's own broadcasting impl is a possible target by signature); at
        // unwind 5 that recursion costs 10 M program steps, at 3 under 2 M. `-Z restrict-vtable` is NOT used here: with a
        // listener registered it produced NULL function pointers for the recording listener (Kani 0.68).
        #[kani::proof]
        #[kani::unwind(3)]
        #[kani::stub(crate::common::now, vnow)]
        #[kani::stub(alloc::fmt::format, fmt_stub)]
#[kani::stub(crate::common::page_size, page_size_stub)]
        fn $name() {
            let $co = new_co();
            let $old = any_state();
            let now: u64 = kani::any();
            unsafe { VNOW = now };
            $co.state.set($old);
            reset_rec();
            let res: std::io::Result<()> = $call;
            let silent = {
                let $o2 = &$old;
                $silent
            };
            check_step(&$co, $old, &res, now, silent);
            kani::cover!(res.is_ok() && $co.state() != $old, "an accepted change");
            kani::cover!(res.is_err(), "a refused request");
            core::mem::forget(res);
            core::mem::forget($co);
        }
    };
}

c07_step!(c07_step_ready, |co, old| co.ready(), |o| matches!(o, CoroutineState::Ready));
c07_step!(c07_step_running, |co, old| co.running(),
    |o| matches!(o, CoroutineState::Running | CoroutineState::Syscall(_, _, SyscallState::Callback | SyscallState::Timeout)));
c07_step!(c07_step_suspend, |co, old| {
    let (v, ts): (u8, u64) = (kani::any(), kani::any());
    let r = co.suspend(v, ts);
    if r.is_ok() {
        kani::assert(co.state() == CoroutineState::Suspend(v, ts), "the Suspend state carries the yielded value and the requested wake-up time");
    }
    r
}, |o| false);
c07_step!(c07_step_syscall, |co, old| {
    let (v, n, st): (u8, SyscallName, SyscallState) = (kani::any(), any_syscall_name(), any_syscall_state());
    let r = co.syscall(v, n, st);
    if r.is_ok() {
        kani::assert(co.state() == CoroutineState::Syscall(v, n, st), "the Syscall state carries the requested call and phase");
    }
    r
}, |o| false);
c07_step!(c07_step_cancel, |co, old| co.cancel(), |o| false);
c07_step!(c07_step_complete, |co, old| {
    let v = any_opt();
    let r = co.complete(v);
    if r.is_ok() {
        kani::assert(co.state() == CoroutineState::Complete(v) && unsafe { CB_RESULT } == Some(v), "completion is reported with the body's return value");
    }
    r
}, |o| false);
c07_step!(c07_step_error, |co, old| co.error("x"), |o| false);
