// C20 / C21 - readiness tokens and OS interest bookkeeping (mounted under core/src/net/selector/mod.rs).
//
// Real code: the `Selector` default methods (add_read_event, add_write_event, del_event,
// del_read_event, del_write_event, select's record clean-up, register/reregister/deregister) and
// `mio_adapter::Poller::{do_register, do_reregister, do_deregister, do_select}` +
// `<mio::event::Event as Event>::get_token`. The OS is the mio model: a table fd -> (token, interest)
// per Poll with epoll's EEXIST/ENOENT contract; `poll` delivers the token that was registered.
use super::*;
use mio::{Events as MioEvents, Interest as MioInterest};

fn reset_records() {
    // the record sets are process-wide statics; start every harness from the empty state
    TOKEN_FD.clear();
    READABLE_RECORDS.clear();
    READABLE_TOKEN_RECORDS.clear();
    WRITABLE_RECORDS.clear();
    WRITABLE_TOKEN_RECORDS.clear();
}

fn collect(p: &Poller) -> ([Option<(u64, bool, bool)>; 2], usize) {
    let mut events = MioEvents::with_capacity(8);
    let r = p.select(&mut events, Some(Duration::ZERO));
    kani::assert(r.is_ok(), "select succeeds on the model OS");
    let mut out = [None; 2];
    let mut n = 0;
    for e in events.iterator() {
        if n < 2 {
            out[n] = Some((Event::get_token(e), Event::readable(e), Event::writable(e)));
        }
        n += 1;
    }
    (out, n)
}

/// C20 (a): for EVERY 64-bit token and descriptor, the token decoded from the readiness event the OS
/// delivers for that registration is the token that was passed when interest was registered.
#[kani::proof]
#[kani::unwind(6)]
fn c20_token_roundtrip_read() {
    reset_records();
    let p = Poller::new().unwrap();
    let token: u64 = kani::any();
    let fd: c_int = kani::any();
    kani::assume(fd >= 0);
    kani::assert(p.add_read_event(fd, token).is_ok(), "registering read interest succeeds");
    p.registry().verif_set_ready(fd, 1);
    let (ev, n) = collect(&p);
    kani::assert(n == 1, "exactly one readiness event is delivered");
    let (tok, r, _w) = ev[0].unwrap();
    kani::assert(r, "the event is a read event");
    kani::assert(tok == token, "the readiness event carries the token of the waiting coroutine (all 64 bits)");
    kani::cover!(token > u64::from(u32::MAX), "token above 2^32");
    kani::cover!(token <= u64::from(u32::MAX), "token below 2^32");
}

#[kani::proof]
#[kani::unwind(6)]
fn c20_token_roundtrip_write() {
    reset_records();
    let p = Poller::new().unwrap();
    let token: u64 = kani::any();
    let fd: c_int = kani::any();
    kani::assume(fd >= 0);
    kani::assert(p.add_write_event(fd, token).is_ok(), "registering write interest succeeds");
    p.registry().verif_set_ready(fd, 2);
    let (ev, n) = collect(&p);
    kani::assert(n == 1, "exactly one readiness event is delivered");
    let (tok, _r, w) = ev[0].unwrap();
    kani::assert(w, "the event is a write event");
    kani::assert(tok == token, "the readiness event carries the token of the waiting coroutine (all 64 bits)");
    kani::cover!(token > u64::from(u32::MAX), "token above 2^32");
}

/// C20 (b): coroutines a != b wait on descriptors x != y; readiness of x yields an event for a and
/// none for b (full 64-bit ids, so two ids that collide after folding to 32 bits are covered).
#[kani::proof]
#[kani::unwind(6)]
fn c20_readiness_wakes_only_the_waiter() {
    reset_records();
    let p = Poller::new().unwrap();
    let a: u64 = kani::any();
    let b: u64 = kani::any();
    kani::assume(a != b);
    let x: c_int = kani::any();
    let y: c_int = kani::any();
    kani::assume(x >= 0 && y >= 0 && x != y);
    kani::assert(p.add_read_event(x, a).is_ok(), "a waits on x");
    kani::assert(p.add_read_event(y, b).is_ok(), "b waits on y");
    p.registry().verif_set_ready(x, 1);
    let (ev, n) = collect(&p);
    kani::assert(n == 1, "one descriptor ready => one event");
    let (tok, _, _) = ev[0].unwrap();
    kani::assert(tok != b, "readiness of x never resumes the coroutine waiting on y");
    kani::assert(tok == a, "readiness of x resumes the coroutine waiting on x");
    kani::cover!((a >> 32) as u32 ^ a as u32 == (b >> 32) as u32 ^ b as u32, "ids that collide when folded to 32 bits");
}

/// C20 (c): two coroutines wait on the SAME descriptor, one for reading (token a), one for writing (token b); one of the two
/// interests is dropped (what shutdown / a finished write does). Readiness for the remaining interest must carry the
/// token of the coroutine that still waits - never the other one's.
#[kani::proof]
#[kani::unwind(6)]
fn c20_remaining_waiter_keeps_its_token() {
    reset_records();
    let p = Poller::new().unwrap();
    let a: u64 = kani::any();
    let b: u64 = kani::any();
    kani::assume(a != b);
    let x: c_int = kani::any();
    kani::assume(x >= 0);
    let read_first: bool = kani::any();
    if read_first {
        kani::assert(p.add_read_event(x, a).is_ok(), "a waits to read x");
        kani::assert(p.add_write_event(x, b).is_ok(), "b waits to write x");
    } else {
        kani::assert(p.add_write_event(x, b).is_ok(), "b waits to write x");
        kani::assert(p.add_read_event(x, a).is_ok(), "a waits to read x");
    }
    let drop_write: bool = kani::any();
    if drop_write {
        kani::assert(p.del_write_event(x).is_ok(), "write interest dropped");
        p.registry().verif_set_ready(x, 1);
    } else {
        kani::assert(p.del_read_event(x).is_ok(), "read interest dropped");
        p.registry().verif_set_ready(x, 2);
    }
    let (ev, n) = collect(&p);
    kani::assert(n == 1, "the remaining interest is still registered and its readiness is delivered");
    let (tok, _, _) = ev[0].unwrap();
    kani::assert(tok == if drop_write { a } else { b }, "readiness for the remaining interest resumes the coroutine that still waits, not the one whose interest was dropped");
    kani::cover!(drop_write && read_first, "read then write registered, write dropped");
    kani::cover!(!drop_write && !read_first, "write then read registered, read dropped");
}

// ------------------------------------------------------------------------------------------ C21
const NFD: usize = 2;
const FDS: [c_int; NFD] = [8, 9];

#[derive(Copy, Clone)]
struct Ghost {
    r: bool,
    w: bool,
}

fn check_os(p: &Poller, g: &[Ghost; NFD]) {
    let mut i = 0;
    while i < NFD {
        let reg = p.registry().verif_lookup(FDS[i]);
        let (want_r, want_w) = (g[i].r, g[i].w);
        match reg {
            None => kani::assert(!want_r && !want_w, "an outstanding interest must be registered with the OS"),
            Some(r) => {
                kani::assert(want_r || want_w, "no stale OS registration without an outstanding interest");
                kani::assert((r.bits & 1 != 0) == want_r, "OS read interest equals the outstanding read interest");
                kani::assert((r.bits & 2 != 0) == want_w, "OS write interest equals the outstanding write interest");
            }
        }
        i += 1;
    }
}

/// One interest operation. kind: 0 wait-read, 1 wait-write, 2 del both, 3 del read, 4 del write,
/// 5 close (runtime drops interest, then the kernel forgets the descriptor; the number is reused).
fn op(p: &Poller, g: &mut [Ghost; NFD], kind: u8, i: usize, token: u64) {
    let fd = FDS[i];
    match kind {
        0 => {
            kani::assert(p.add_read_event(fd, token).is_ok(), "add_read_event fails only when the OS does");
            g[i].r = true;
        }
        1 => {
            kani::assert(p.add_write_event(fd, token).is_ok(), "add_write_event fails only when the OS does");
            g[i].w = true;
        }
        2 => {
            kani::assert(p.del_event(fd).is_ok(), "del_event fails only when the OS does");
            g[i] = Ghost { r: false, w: false };
        }
        3 => {
            kani::assert(p.del_read_event(fd).is_ok(), "del_read_event fails only when the OS does");
            g[i].r = false;
        }
        4 => {
            kani::assert(p.del_write_event(fd).is_ok(), "del_write_event fails only when the OS does");
            g[i].w = false;
        }
        _ => {
            kani::assert(p.del_event(fd).is_ok(), "close: dropping interest fails only when the OS does");
            p.registry().verif_kernel_close(fd);
            g[i] = Ghost { r: false, w: false };
        }
    }
}

fn interest_history(n: usize) {
    reset_records();
    let p = Poller::new().unwrap();
    let mut g = [Ghost { r: false, w: false }; NFD];
    let mut kinds = [9u8; 4];
    let mut k = 0;
    while k < n {
        let kind: u8 = kani::any();
        kani::assume(kind <= 5);
        let i: usize = kani::any();
        kani::assume(i < NFD);
        let token: u64 = kani::any();
        kinds[k] = kind;
        op(&p, &mut g, kind, i, token);
        check_os(&p, &g);
        k += 1;
    }
    kani::cover!(n >= 3 && kinds[0] == 0 && kinds[1] == 1 && kinds[2] == 3, "read+write then drop read");
    kani::cover!(n >= 3 && kinds[0] == 0 && kinds[1] == 5 && kinds[2] == 0, "close then reuse the number");
}

#[kani::proof]
#[kani::unwind(6)]
fn c21_interest_history_3() {
    interest_history(3);
}

#[kani::proof]
#[kani::unwind(6)]
fn c21_interest_history_4() {
    interest_history(4);
}

/// After a readiness event was consumed by select, waiting again still leaves the OS interest in
/// place (mio registrations persist; the records must agree with that).
#[kani::proof]
#[kani::unwind(6)]
fn c21_rewait_after_event() {
    reset_records();
    let p = Poller::new().unwrap();
    let mut g = [Ghost { r: false, w: false }; NFD];
    let t1: u64 = kani::any();
    let t2: u64 = kani::any();
    let first: u8 = kani::any();
    kani::assume(first <= 1);
    op(&p, &mut g, first, 0, t1);
    p.registry().verif_set_ready(FDS[0], if first == 0 { 1 } else { 2 });
    let (_ev, n) = collect(&p);
    kani::assert(n == 1, "the event is delivered");
    let second: u8 = kani::any();
    kani::assume(second <= 5);
    op(&p, &mut g, second, 0, t2);
    check_os(&p, &g);
    kani::cover!(second == first, "same interest awaited again");
    kani::cover!(second == 5, "closed after the event");
}

/// Two event loops (two pollers) share the process-wide record sets: a wait registered through one
/// loop must not make the other loop believe it has the interest registered too.
#[kani::proof]
#[kani::unwind(6)]
fn c21_two_event_loops() {
    reset_records();
    let p1 = Poller::new().unwrap();
    let p2 = Poller::new().unwrap();
    let t1: u64 = kani::any();
    let t2: u64 = kani::any();
    let fd = FDS[0];
    kani::assert(p1.add_read_event(fd, t1).is_ok(), "loop 1 registers read interest");
    kani::assert(p2.add_read_event(fd, t2).is_ok(), "loop 2 registers read interest");
    let r2 = p2.registry().verif_lookup(fd);
    kani::assert(r2.is_some(), "a wait made through event loop 2 is registered with event loop 2's OS poller");
}

// ------------------------------------------------------------------------------------------ C21, inductive step
// One interest operation from an ARBITRARY valid state (DESIGN 2.6-1): histories of any length over 2 descriptors.
// State per descriptor: read interest outstanding or not, write interest outstanding or not; for an outstanding
// interest the waiting token's record may be present or already consumed by `select` (an event was delivered - the
// interest itself stays registered, mio registrations persist). INV: the OS interest list of the poller holds the
// descriptor iff an interest is outstanding, with exactly those interests; a token record exists only for an
// outstanding interest. Every such state is reachable (wait read / wait write / deliver an event), so a counterexample
// is a real history.
#[derive(Copy, Clone)]
struct FdState {
    r: bool,
    w: bool,
    rt: bool, // READABLE_TOKEN_RECORDS entry present
    wt: bool,
    tok_r: u64,
    tok_w: u64,
    tok_os: u64,
}

fn any_fd_state() -> FdState {
    let s = FdState { r: kani::any(), w: kani::any(), rt: kani::any(), wt: kani::any(), tok_r: kani::any(), tok_w: kani::any(), tok_os: kani::any() };
    kani::assume(!s.rt || s.r);
    kani::assume(!s.wt || s.w);
    s
}

/// Writes the pre-state straight into the model containers (slot i for descriptor i): no search loops, no branching.
fn install(p: &Poller, i: usize, s: &FdState) {
    let fd = FDS[i];
    READABLE_RECORDS.verif_set_slot(i, if s.r { Some(fd) } else { None });
    READABLE_TOKEN_RECORDS.verif_set_slot(i, if s.r && s.rt { Some((fd, s.tok_r)) } else { None });
    WRITABLE_RECORDS.verif_set_slot(i, if s.w { Some(fd) } else { None });
    WRITABLE_TOKEN_RECORDS.verif_set_slot(i, if s.w && s.wt { Some((fd, s.tok_w)) } else { None });
    let bits: u8 = (s.r as u8) | ((s.w as u8) << 1);
    p.registry().verif_set_slot(
        i,
        if s.r || s.w { Some(mio::Registration { fd, token: s.tok_os as usize, bits }) } else { None },
    );
}

fn inv(p: &Poller, g: &[Ghost; NFD]) {
    check_os(p, g);
    let mut i = 0;
    while i < NFD {
        let fd = FDS[i];
        kani::assert(READABLE_RECORDS.contains(&fd) == g[i].r, "the read-interest record equals the outstanding read interest");
        kani::assert(WRITABLE_RECORDS.contains(&fd) == g[i].w, "the write-interest record equals the outstanding write interest");
        kani::assert(!READABLE_TOKEN_RECORDS.contains_key(&fd) || g[i].r, "a waiting-token record exists only for an outstanding read interest");
        kani::assert(!WRITABLE_TOKEN_RECORDS.contains_key(&fd) || g[i].w, "a waiting-token record exists only for an outstanding write interest");
        i += 1;
    }
}

// the poller the stubbed EventLoops::del_event talks to (close hook harness)
static mut STEP_POLLER: *const Poller = std::ptr::without_provenance(0x2c1);
static mut KCLOSE_RESULT: c_int = 0x2c2;
fn s_del_event(fd: c_int) -> std::io::Result<()> {
    unsafe { (*STEP_POLLER).del_event(fd) }
}
extern "C" fn k_close(fd: c_int) -> c_int {
    unsafe {
        if KCLOSE_RESULT == 0 {
            // the kernel drops a closed descriptor from every interest list by itself
            (*STEP_POLLER).registry().verif_kernel_close(fd);
            0
        } else {
            crate::syscall::set_errno(libc::EBADF);
            -1
        }
    }
}

/// kinds 0..=5 as in `op`; 6: the hooked close (syscall::close -> NioCloseSyscall -> raw close) on a live descriptor;
/// 7: a readiness event for the descriptor is delivered through `select`; 8 / 9: a wait for read / write readiness whose OS
/// registration call is refused (one-shot fault injection of the mio model).
/// `r0`/`w0`: which interests descriptor 0 (the one the operation addresses) has outstanding - CONCRETE per harness (4 x 8
/// instances). With them symbolic, the model OS's answer to reregister/register is symbolic too, CBMC has to follow the
/// `or_else(|_| register(..))` error path everywhere, and dropping the io::Error there (a `Box<dyn Error>` as far as the type
/// goes) drags the drop glue of every type of the crate into the query: no step harness finished in 900 s. Everything else
/// stays symbolic: whether the waiting tokens were already consumed, all tokens, descriptor 1's whole state.
fn step(kind: u8, r0: bool, w0: bool) {
    reset_records();
    let p = Poller::new().unwrap();
    let mut s0 = any_fd_state();
    kani::assume(s0.r == r0 && s0.w == w0);
    s0.r = r0;
    s0.w = w0;
    let s1 = any_fd_state();
    install(&p, 0, &s0);
    install(&p, 1, &s1);
    let mut g = [Ghost { r: s0.r, w: s0.w }, Ghost { r: s1.r, w: s1.w }];
    // The operation addresses descriptor 0; descriptor 1 (arbitrary state too) is the bystander whose registration must not
    // change. The code treats descriptor numbers uniformly (map keys), so fixing which of the two is addressed loses nothing
    // and keeps the map lookups concrete.
    let i: usize = 0;
    let token: u64 = kani::any();
    match kind {
        6 => {
            unsafe {
                STEP_POLLER = &raw const p;
                KCLOSE_RESULT = 0;
            }
            let f: extern "C" fn(c_int) -> c_int = k_close;
            let r = crate::syscall::close(Some(&f), FDS[i]);
            kani::assert(r == 0, "close returns the kernel's result");
            g[i] = Ghost { r: false, w: false };
        }
        7 => {
            let bits: u8 = kani::any();
            kani::assume(bits >= 1 && bits <= 3);
            p.registry().verif_set_ready(FDS[i], bits);
            let (_ev, n) = collect(&p);
            kani::assert(n <= 1, "at most one event for one ready descriptor");
            // delivering an event consumes waiting tokens, never an interest
        }
        8 | 9 => {
            // the OS refuses the registration (EPERM for a regular file, EBADF for a closed number, ENOMEM ...): the wait fails
            // and leaves NO interest behind - neither a record nor a registration - so that a later wait registers afresh
            p.registry().verif_fail_next(libc::EPERM);
            let r = if kind == 8 { p.add_read_event(FDS[i], token) } else { p.add_write_event(FDS[i], token) };
            kani::assert(r.is_err(), "a wait fails when the OS refuses the registration");
            core::mem::forget(r);
        }
        _ => op(&p, &mut g, kind, i, token),
    }
    inv(&p, &g);
    kani::cover!(s1.r && s1.w && !s1.rt, "bystander descriptor with both interests, read event already delivered");
    kani::cover!(!s1.r && !s1.w, "bystander descriptor without interest");
}

macro_rules! c21_step {
    ($name:ident, $kind:expr, $r:expr, $w:expr) => {
        // unwind 3 (model containers hold 2 entries in this group, `--cfg ocv_small`): the bound is also the depth to which
        // CBMC unrolls the recursion it sees in io::Error's drop glue (Box<dyn Error> whose source may be an io::Error ...);
        // at unwind 6 no step harness finished symbolic execution
        #[cfg(ocv_small)]
        #[kani::proof]
        #[kani::unwind(3)]
        #[kani::stub(crate::net::EventLoops::del_event, s_del_event)]
        fn $name() {
            step($kind, $r, $w);
        }
    };
}
c21_step!(c21_step_wait_read_from_none, 0, false, false);
c21_step!(c21_step_wait_read_from_read, 0, true, false);
c21_step!(c21_step_wait_read_from_write, 0, false, true);
c21_step!(c21_step_wait_read_from_both, 0, true, true);
c21_step!(c21_step_wait_write_from_none, 1, false, false);
c21_step!(c21_step_wait_write_from_read, 1, true, false);
c21_step!(c21_step_wait_write_from_write, 1, false, true);
c21_step!(c21_step_wait_write_from_both, 1, true, true);
c21_step!(c21_step_del_both_from_none, 2, false, false);
c21_step!(c21_step_del_both_from_read, 2, true, false);
c21_step!(c21_step_del_both_from_write, 2, false, true);
c21_step!(c21_step_del_both_from_both, 2, true, true);
c21_step!(c21_step_del_read_from_none, 3, false, false);
c21_step!(c21_step_del_read_from_read, 3, true, false);
c21_step!(c21_step_del_read_from_write, 3, false, true);
c21_step!(c21_step_del_read_from_both, 3, true, true);
c21_step!(c21_step_del_write_from_none, 4, false, false);
c21_step!(c21_step_del_write_from_read, 4, true, false);
c21_step!(c21_step_del_write_from_write, 4, false, true);
c21_step!(c21_step_del_write_from_both, 4, true, true);
c21_step!(c21_step_close_and_reuse_from_none, 5, false, false);
c21_step!(c21_step_close_and_reuse_from_read, 5, true, false);
c21_step!(c21_step_close_and_reuse_from_write, 5, false, true);
c21_step!(c21_step_close_and_reuse_from_both, 5, true, true);
c21_step!(c21_step_hooked_close_from_none, 6, false, false);
c21_step!(c21_step_hooked_close_from_read, 6, true, false);
c21_step!(c21_step_hooked_close_from_write, 6, false, true);
c21_step!(c21_step_hooked_close_from_both, 6, true, true);
c21_step!(c21_step_event_delivered_from_none, 7, false, false);
c21_step!(c21_step_event_delivered_from_read, 7, true, false);
c21_step!(c21_step_event_delivered_from_write, 7, false, true);
c21_step!(c21_step_event_delivered_from_both, 7, true, true);
c21_step!(c21_step_wait_read_refused_by_the_os_from_none, 8, false, false);
c21_step!(c21_step_wait_write_refused_by_the_os_from_none, 9, false, false);
c21_step!(c21_step_wait_read_refused_by_the_os_from_write, 8, false, true);
c21_step!(c21_step_wait_write_refused_by_the_os_from_read, 9, true, false);
