// C25 - coroutine-local storage (mounted under core/src/coroutine/local.rs).
// Real code: CoroutineLocal::{put,get,get_mut,remove} (+ drop of the owner) over the dashmap model.
use super::*;

// (statics have distinctive non-zero initial values and are explicitly initialised: Kani 0.68 can alias a
// constant allocation with a static whose initial bytes are identical, see c16_io.rs)
static mut CREATED: u32 = 0x251;
static mut DROPPED: u32 = 0x252;

/// A value with an observable destructor.
struct V(u8);
impl V {
    fn new(x: u8) -> V {
        unsafe { CREATED += 1 };
        V(x)
    }
}
impl Drop for V {
    fn drop(&mut self) {
        unsafe { DROPPED += 1 };
    }
}

const KEYS: [&str; 2] = ["a", "b"];

/// One map operation against the reference model `m[local][key]`.
/// kind: 0 put, 1 get, 2 get_mut (+write), 3 remove
fn step(locals: &[CoroutineLocal<'static>; 2], m: &mut [[Option<u8>; 2]; 2], kind: u8, l: usize, k: usize, x: u8) {
    let key = KEYS[k];
    match kind {
        0 => {
            let prev = locals[l].put(key, V::new(x));
            match (&prev, m[l][k]) {
                (Some(p), Some(w)) => kani::assert(p.0 == w, "put returns the value previously stored under the key"),
                (None, None) => {}
                _ => kani::assert(false, "put returns Some exactly when the key was present"),
            }
            m[l][k] = Some(x);
            drop(prev);
        }
        1 => {
            let got = locals[l].get::<V>(key);
            match (got, m[l][k]) {
                (Some(g), Some(w)) => kani::assert(g.0 == w, "get returns the latest value stored by this coroutine"),
                (None, None) => {}
                _ => kani::assert(false, "get sees exactly the keys stored through this coroutine"),
            }
        }
        2 => {
            let got = locals[l].get_mut::<V>(key);
            match (got, m[l][k]) {
                (Some(g), Some(w)) => {
                    kani::assert(g.0 == w, "get_mut returns the latest value");
                    g.0 = x;
                    m[l][k] = Some(x);
                }
                (None, None) => {}
                _ => kani::assert(false, "get_mut sees exactly the keys stored through this coroutine"),
            }
        }
        _ => {
            let got = locals[l].remove::<V>(key);
            match (&got, m[l][k]) {
                (Some(g), Some(w)) => kani::assert(g.0 == w, "remove returns the stored value"),
                (None, None) => {}
                _ => kani::assert(false, "remove returns Some exactly when the key was present"),
            }
            m[l][k] = None;
            drop(got);
            kani::assert(locals[l].get::<V>(key).is_none(), "remove deletes the key");
        }
    }
}

fn stored(m: &[[Option<u8>; 2]; 2]) -> u32 {
    let mut n = 0;
    let mut l = 0;
    while l < 2 {
        let mut k = 0;
        while k < 2 {
            if m[l][k].is_some() {
                n += 1;
            }
            k += 1;
        }
        l += 1;
    }
    n
}

fn history(n: usize, check_release: bool) {
    unsafe {
        CREATED = 0;
        DROPPED = 0;
    }
    let locals: [CoroutineLocal<'static>; 2] = [CoroutineLocal::default(), CoroutineLocal::default()];
    let mut m: [[Option<u8>; 2]; 2] = [[None; 2]; 2];
    let mut i = 0;
    while i < n {
        let kind: u8 = kani::any();
        kani::assume(kind <= 3);
        let l: usize = kani::any();
        kani::assume(l < 2);
        let k: usize = kani::any();
        kani::assume(k < 2);
        let x: u8 = kani::any();
        step(&locals, &mut m, kind, l, k, x);
        // values that were replaced or removed are gone exactly once, stored ones are alive
        unsafe {
            kani::assert(CREATED - DROPPED == stored(&m), "every value not stored any more has been dropped exactly once");
        }
        i += 1;
    }
    let live = stored(&m);
    kani::cover!(live == 2, "two values still stored at the end");
    kani::cover!(live == 0 && unsafe { CREATED } >= 1, "everything removed again");
    drop(locals);
    if check_release {
        unsafe {
            kani::assert(DROPPED == CREATED, "values still stored are dropped when the coroutine (its local storage) is dropped");
        }
    }
}

#[kani::proof]
#[kani::unwind(6)]
fn c25_map_history_3() {
    history(3, false);
}

#[kani::proof]
#[kani::unwind(6)]
fn c25_map_history_4() {
    history(4, false);
}

#[kani::proof]
#[kani::unwind(6)]
fn c25_release_on_drop() {
    history(2, true);
}

// ---- zero-sized values: nothing is allocated for them, but their destructor still has to run --------------------------
static mut Z_DROPPED: u32 = 0x253;
/// A zero-sized value with an observable destructor (a guard / token type).
struct Z;
impl Drop for Z {
    fn drop(&mut self) {
        unsafe { Z_DROPPED += 1 };
    }
}

/// Zero-sized values follow the same rules as any other value: an overwritten or removed one is handed back (and dropped by
/// the caller), one still stored is dropped with the local storage - exactly once each.
#[kani::proof]
#[kani::unwind(6)]
fn c25_zero_sized_values_are_released_too() {
    unsafe { Z_DROPPED = 0 };
    let local = CoroutineLocal::default();
    let overwrite: bool = kani::any();
    let remove: bool = kani::any();
    kani::assert(local.put("a", Z).is_none(), "first put under the key returns None");
    let mut created = 1u32;
    if overwrite {
        let prev = local.put("a", Z);
        created += 1;
        kani::assert(prev.is_some(), "put returns the value previously stored under the key");
        drop(prev);
        unsafe { kani::assert(Z_DROPPED == 1, "the overwritten value was handed back and dropped by the caller, once") };
    }
    kani::assert(local.get::<Z>("a").is_some(), "the value is stored");
    if remove {
        let r = local.remove::<Z>("a");
        kani::assert(r.is_some(), "remove returns the stored value");
        drop(r);
        kani::assert(local.get::<Z>("a").is_none(), "removed");
    }
    let before = unsafe { Z_DROPPED };
    drop(local);
    unsafe {
        kani::assert(Z_DROPPED == created, "every zero-sized value has been dropped exactly once after the local storage is gone");
        kani::assert(remove || Z_DROPPED == before + 1, "the value still stored is dropped together with the local storage");
    }
    kani::cover!(overwrite && !remove, "overwritten, then dropped with the storage");
}
