// C02, the handle layer: JoinHandle::{timeout_at_join, timeout_join} over a finished task (mounted under
// core/src/net/event_loop.rs, together with c02_join.rs under co_pool/mod.rs whose environment it reuses).
//
// Real code: JoinHandle::{new, id, timeout_at_join}, EventLoop's Deref to its CoroutinePool, CoroutinePool::{submit_task,
// try_run, wait_task_result}. The event loop is partially initialised as in c14_wait.rs: only its `pool` field is real (the
// handle touches nothing else); the remaining fields are zeroed and never used or dropped.
use super::*;
use crate::co_pool::verif_c02_join as cj;
use crate::net::join::JoinHandle;
use crate::verif_sync;

static mut VNOW: u64 = 0xc2a1;
fn vnow() -> u64 {
    unsafe { VNOW }
}
/// (no symbolic division: see c14_wait.rs; here the remaining time is bounded below one second by the harness)
fn from_nanos_no_div(nanos: u64) -> Duration {
    if nanos < 1_000_000_000 {
        Duration::new(0, nanos as u32)
    } else {
        Duration::new(nanos / 1_000_000_000, (nanos % 1_000_000_000) as u32)
    }
}

fn loop_with_pool() -> &'static Arc<EventLoop<'static>> {
    let mut el: std::mem::MaybeUninit<EventLoop<'static>> = std::mem::MaybeUninit::zeroed();
    unsafe {
        std::ptr::write(&raw mut (*el.as_mut_ptr()).pool, cj::pool("p"));
        Box::leak(Box::new(Arc::new(el.assume_init())))
    }
}

/// Once the task has finished, a join through the handle returns the task's own value WHATEVER the deadline is - in the
/// future, exactly now, or already expired (`timeout_join(Duration::ZERO)` is the non-blocking poll) - and never blocks.
#[kani::proof]
#[kani::unwind(3)]
#[kani::stub(crate::common::now, vnow)]
#[kani::stub(core::time::Duration::from_nanos, from_nanos_no_div)]
#[kani::stub(alloc::fmt::format, cj::fmt_stub)]
#[kani::stub(crate::common::page_size, cj::page_size_stub)]
#[kani::stub(crate::common::beans::BeanFactory::get_or_default, cj::StubFactory::get_or_default)]
#[kani::stub(crate::common::ordered_work_steal::OrderedLocalQueue::push, cj::QStub::push)]
#[kani::stub(crate::common::ordered_work_steal::OrderedLocalQueue::pop, cj::QStub::pop)]
#[kani::stub(crate::common::ordered_work_steal::OrderedLocalQueue::is_empty, cj::QStub::is_empty)]
fn c02_handle_join_of_a_finished_task_returns_its_value_for_every_deadline() {
    cj::small_queues();
    let el = loop_with_pool();
    let v: Option<usize> = kani::any();
    let id = el.submit_task(Some(String::from("t")), |p| p, v, None).expect("submit");
    kani::assert(cj::run_one(el).is_some(), "the task runs");
    let now: u64 = kani::any();
    let deadline: u64 = kani::any();
    kani::assume(deadline <= now || deadline - now < 1_000_000_000);
    unsafe { VNOW = now };
    let h = JoinHandle::new(el, id);
    let r = h.timeout_at_join(deadline);
    kani::assert(matches!(r, Ok(Ok(x)) if x == v), "a join of a finished task returns the task's own value, whatever the deadline");
    unsafe {
        kani::assert(verif_sync::FULL_TIMEOUTS == 0 && verif_sync::WAITED_NS == 0, "joining a finished task does not block");
    }
    kani::cover!(deadline < now, "deadline already expired");
    kani::cover!(deadline == now, "deadline is exactly now (timeout_join(ZERO))");
    kani::cover!(deadline > now, "deadline in the future");
    core::mem::forget(r);
    core::mem::forget(h);
}
