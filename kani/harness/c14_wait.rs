// C14, the layer below the hooked calls: EventLoop::timed_wait_just / wait_just (mounted under
// core/src/net/event_loop.rs). Every hooked timed wait of a plain thread ends in
// `EventLoops::wait_event(d)` = `timed_wait_just(Some(d))`, whose contract the other C14 harnesses
// assume: it does not come back with Ok before `d` has passed.
//
// Real code: EventLoop::{new, timed_wait_just, wait_just}, Selector::select (waiting flag, record clean-up),
// mio_adapter::Poller::do_select, common::get_timeout_time. Environment: virtual clock; the OS poll is
// the mio model whose hook lets time pass: a poll with timeout t returns either after t plus an arbitrary
// delay (the thread may be descheduled for any time), or EARLY with EINTR (a signal), or with EBADF.
use super::*;

static mut VNOW: u64 = 0xa1;
static mut POLLS: u32 = 0xa2;
static mut EINTRS: u32 = 0xa3;
static mut HARD_ERR: bool = false;
static mut POLLED_FOREVER: bool = false;

fn vnow() -> u64 {
    unsafe { VNOW }
}
fn fmt_stub(_args: std::fmt::Arguments<'_>) -> String {
    String::new()
}

/// `Duration::from_nanos` divides a symbolic u64 by 10^9, which CBMC's bit-blasted divider does not get through (probed in
/// round 0). Equivalent replacement: below one second (always the case for the <= 10 ms slices built here) no division is
/// needed; the general case keeps the division (its branch is infeasible in this harness, so the solver never has to solve it).
fn from_nanos_no_div(nanos: u64) -> Duration {
    if nanos < 1_000_000_000 {
        Duration::new(0, nanos as u32)
    } else {
        Duration::new(nanos / 1_000_000_000, (nanos % 1_000_000_000) as u32)
    }
}

static mut MAX_POLLS: u32 = 0xa4; // OS polls per execution (2 in the quick harness, 3 in the thorough one)

fn poll_hook(timeout: Option<Duration>) -> i32 {
    unsafe {
        POLLS += 1;
        // executions needing more than MAX_POLLS polls are outside the bound (every timeout is still covered:
        // the delay below is unbounded, so some execution of <= MAX_POLLS polls exists for every d)
        kani::assume(POLLS <= MAX_POLLS);
        let Some(t) = timeout else {
            POLLED_FOREVER = true;
            return 0;
        };
        let t_ns = t.as_secs().saturating_mul(1_000_000_000).saturating_add(u64::from(t.subsec_nanos()));
        let kind: u8 = kani::any();
        let x: u64 = kani::any();
        match kind {
            0 => {
                // nothing happens: the kernel returns after the timeout, the thread resumes any time later
                VNOW = VNOW.saturating_add(t_ns).saturating_add(x);
                0
            }
            1 => {
                // a signal arrives during the wait: epoll_wait fails with EINTR before the timeout
                kani::assume(x <= t_ns);
                VNOW = VNOW.saturating_add(x);
                EINTRS += 1;
                libc::EINTR
            }
            _ => {
                kani::assume(x <= t_ns);
                VNOW = VNOW.saturating_add(x);
                HARD_ERR = true;
                libc::EBADF
            }
        }
    }
}

/// An event loop of which only the selector is initialised. `timed_wait_just` / `wait_just` of a plain thread (no current
/// coroutine) touch nothing else; building the whole loop (pool, scheduler, queues, beans) made the query exceed 20 GB
/// without adding anything the property depends on. A change that makes these functions use another field reads
/// zeroed memory here and fails loudly (exit 2 after the native replay), it cannot pass silently.
fn new_loop() -> std::mem::ManuallyDrop<EventLoop<'static>> {
    let mut el: std::mem::MaybeUninit<EventLoop<'static>> = std::mem::MaybeUninit::zeroed();
    unsafe {
        std::ptr::write(&raw mut (*el.as_mut_ptr()).selector, Poller::new().expect("poller"));
        std::mem::ManuallyDrop::new(el.assume_init())
    }
}

/// A plain thread waits for `d`: for EVERY d (seconds and nanoseconds symbolic) and every clock reading, whatever
/// mixture of timeouts, signals (EINTR) and delays the OS wait produces, Ok is returned only once d has passed.
fn timed_wait_just_not_early(max_polls: u32) {
    unsafe { MAX_POLLS = max_polls };
    let el = new_loop();
    let secs: u64 = kani::any();
    let nanos: u32 = kani::any();
    kani::assume(nanos < 1_000_000_000);
    let now0: u64 = kani::any();
    unsafe {
        VNOW = now0;
        POLLS = 0;
        EINTRS = 0;
        HARD_ERR = false;
        POLLED_FOREVER = false;
        mio::VERIF_POLL_HOOK.0 = Some(poll_hook);
    }
    let d = Duration::new(secs, nanos);
    let r = el.timed_wait_just(Some(d));
    unsafe {
        let want = now0.saturating_add(secs.saturating_mul(1_000_000_000).saturating_add(u64::from(nanos)));
        kani::assert(!POLLED_FOREVER, "a timed wait never polls the OS without a timeout");
        if r.is_ok() {
            kani::assert(VNOW >= want, "a timed wait returns Ok only once the requested time has passed (an interrupted OS wait is retried)");
        } else {
            kani::assert(HARD_ERR, "a timed wait fails only when the OS wait failed with something else than EINTR");
        }
        kani::cover!(r.is_ok() && EINTRS >= 1 && POLLS == max_polls, "interrupted by a signal, retried, then timed out");
        kani::cover!(r.is_ok() && secs > 1_000_000, "a very long wait (the thread was descheduled past the deadline)");
        kani::cover!(r.is_err(), "hard OS error");
        mio::VERIF_POLL_HOOK.0 = None;
    }
}

macro_rules! c14_wait {
    ($name:ident, $polls:expr) => {
        #[kani::proof]
        #[kani::unwind(4)]
        #[kani::stub(crate::common::now, vnow)]
        #[kani::stub(alloc::fmt::format, fmt_stub)]
        #[kani::stub(std::time::Duration::from_nanos, from_nanos_no_div)]
        fn $name() {
            timed_wait_just_not_early($polls);
        }
    };
}
// measured (unloaded): 3 polls = 2.75 M program steps, 4.5 M SAT variables, 190 s symbolic execution + 1531 s SAT
c14_wait!(c14_timed_wait_just_not_early_2_polls, 2);
c14_wait!(c14_timed_wait_just_not_early, 3);
