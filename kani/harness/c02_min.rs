// C02 - joining a task returns that task's own result once it finishes (mounted under core/src/co_pool/mod.rs).
//
// Real code: CoroutinePool::{new, submit_task, submit_raw_task, try_run, wait_task_result, try_take_task_result, notify},
// Task::{new, run}, and under them OrderedLocalQueue::{push_with_priority, pop} on the shared task queue bean.
// `try_run` is what a worker coroutine does for one task (pop, run the closure, store the result, wake the waiter); it is
// an ordinary method, so it is executed directly (no coroutine body is needed for that).
// Environment: E5 - Mutex/Condvar of co_pool/mod.rs and common/mod.rs are the verif_sync model (a blocking wait lets the
// other modelled thread run, and records when a FULL timeout elapsed); dashmap/st3/skiplist/deque model crates; the two
// process-wide queue beans are created with 2 local queues of capacity 2 (instead of num_cpus x 256).
use super::*;
use crate::common::constants::{CoroutineState, COROUTINE_GLOBAL_QUEUE_BEAN, TASK_GLOBAL_QUEUE_BEAN};
use crate::scheduler::SchedulableCoroutineState;
use crate::verif_sync;

fn vnow() -> u64 {
    1_000
}
fn fmt_stub(_args: std::fmt::Arguments<'_>) -> String {
    String::new()
}
/// E6: common::page_size() asks sysconf (FFI, nondeterministic under Kani and then "negative" fails its expect)
fn page_size_stub() -> usize {
    4096
}

// E10: the process-wide queue singletons. `BeanFactory` stores object addresses as integers and casts them back to references;
// CBMC has to consider every object of the program as the target of such a pointer, and every access to the queue through it
// splits over all of them (pool creation alone did not finish symbolic execution in 600 s). The factory itself is decided
// under C26; here `BeanFactory::get_or_default` is stubbed by a lookup in two typed slots that the harness fills with small
// queues (2 local queues of capacity 2 instead of num_cpus x 256) - same sharing semantics: every pool gets the same instance.
static mut TASK_Q: *mut std::ffi::c_void = std::ptr::null_mut();
static mut CO_Q: *mut std::ffi::c_void = std::ptr::null_mut();
static mut Q_TAG: u64 = 0x2c0ffee; // (keeps this module's statics from being all-zero, see c16_io.rs)

// (an associated function of a type with a lifetime parameter: Kani requires the stub to have as many generic parameters as
// `BeanFactory::<'_>::get_or_default::<B>`)
struct StubFactory<'b>(std::marker::PhantomData<&'b ()>);
impl StubFactory<'_> {
    fn get_or_default<B: Default>(bean_name: &str) -> &B {
        unsafe {
            let p = if bean_name.len() == TASK_GLOBAL_QUEUE_BEAN.len() { TASK_Q } else { CO_Q };
            assert!(!p.is_null(), "harness: queue singleton not installed");
            &*p.cast::<B>()
        }
    }
}

fn small_queues() {
    unsafe {
        TASK_Q = std::ptr::from_mut(Box::leak(Box::new(OrderedWorkStealQueue::<Task<'static>>::new(2, 2)))).cast();
        CO_Q = std::ptr::from_mut(Box::leak(Box::new(OrderedWorkStealQueue::<SchedulableCoroutine>::new(2, 2)))).cast();
        Q_TAG = 1;
        verif_sync::FULL_TIMEOUTS = 0;
        verif_sync::WAITED_NS = 0;
        verif_sync::NOTIFIES = 0;
        verif_sync::BLOCK_HOOK = None;
    }
}

fn pool(name: &str) -> CoroutinePool<'static> {
    CoroutinePool::new(String::from(name), crate::common::constants::DEFAULT_STACK_SIZE, 0, 1, 0)
}

fn identity(p: Option<usize>) -> Option<usize> {
    p
}

// =============================================================================================== C12
// Pool lifecycle: only Running -> Stopping -> Stopped; submissions are refused once stopping began (and enqueue
// nothing); stop settles every registered waiter with an error instead of leaving it blocked.
fn any_pool_state() -> PoolState {
    match kani::any::<u8>() % 3 {
        0 => PoolState::Running,
        1 => PoolState::Stopping,
        _ => PoolState::Stopped,
    }
}
fn rank(s: PoolState) -> u8 {
    match s {
        PoolState::Running => 0,
        PoolState::Stopping => 1,
        PoolState::Stopped => 2,
    }
}

/// From an ARBITRARY pool state, any 3 lifecycle requests (stopping / stopped, symbolic) only ever move the pool forward by
/// one documented edge; a refused request leaves the state untouched.
#[kani::proof]
#[kani::unwind(5)]
#[kani::stub(crate::common::now, vnow)]
#[kani::stub(alloc::fmt::format, fmt_stub)]
#[kani::stub(crate::common::page_size, page_size_stub)]
#[kani::stub(crate::common::beans::BeanFactory::get_or_default, StubFactory::get_or_default)]
fn c12_lifecycle_only_moves_forward() {
    small_queues();
    let p = pool("p");
    p.state.set(any_pool_state());
    let mut k = 0;
    while k < 3 {
        let before = p.state();
        let req_stopping: bool = kani::any();
        let r = if req_stopping { p.stopping() } else { p.stopped() };
        let after = p.state();
        match r {
            Ok(_) => {
                let target = if req_stopping { PoolState::Stopping } else { PoolState::Stopped };
                kani::assert(after == target, "an accepted lifecycle request ends in the requested state");
                kani::assert(after == before || rank(after) == rank(before) + 1, "the pool only moves Running -> Stopping -> Stopped, one edge at a time");
            }
            Err(_) => kani::assert(after == before, "a refused lifecycle request leaves the state untouched"),
        }
        kani::assert(rank(after) >= rank(before), "the pool never moves backwards");
        k += 1;
    }
    kani::cover!(p.state() == PoolState::Stopped, "reached Stopped");
    core::mem::forget(p);
}

