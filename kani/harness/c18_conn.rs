// C18 (and the result clause of C16) for the connection-establishing hooks: connect, accept, accept4
// (mounted under core/src/syscall/unix/mod.rs next to c16_io.rs, whose environment model it reuses).
//
// connect: NioConnectSyscall forces O_NONBLOCK, calls the kernel once and then waits for writability
// in slices, consulting getpeername / SO_ERROR after every wait. The two FFI calls are redirected to the
// scripted kernel below (E6 substitution in connect.rs). accept/accept4: impl_nio_read! (retry on
// would-block until the receive time limit).
// Oracle: on EVERY exit path the descriptor's blocking flag equals the flag at entry (C18, second
// sentence), and a successful kernel result is passed through.
use super::verif_c16_io::*;
use super::*;
use std::ffi::c_void;

// ---- scripted kernel for connect ---------------------------------------------------------------
static mut CONN_FIRST: u8 = 0x71; // 0: connected at once, 1: EINPROGRESS, 2: ECONNREFUSED, 3: EALREADY
static mut CONN_CALLS: u32 = 0x72;
static mut CONNECTED_AT: u32 = 0x73; // getpeername succeeds from this wait on
static mut SOERR_AT: u32 = 0x74; // SO_ERROR reports ECONNREFUSED at this wait
static mut SOOPT_FAILS_AT: u32 = 0x75; // getsockopt itself fails at this wait
static mut PROBES: u32 = 0x76;

extern "C" fn mock_connect(_fd: c_int, _a: *const libc::sockaddr, _l: libc::socklen_t) -> c_int {
    unsafe {
        CONN_CALLS += 1;
        match CONN_FIRST {
            0 => 0,
            1 => {
                set_errno(libc::EINPROGRESS);
                -1
            }
            2 => {
                set_errno(libc::ECONNREFUSED);
                -1
            }
            _ => {
                set_errno(libc::EALREADY);
                -1
            }
        }
    }
}

pub(super) unsafe fn k_getpeername(_fd: c_int, _a: *mut libc::sockaddr, _l: *mut libc::socklen_t) -> c_int {
    PROBES += 1;
    if WAITS >= CONNECTED_AT {
        0
    } else {
        set_errno(libc::ENOTCONN);
        -1
    }
}

pub(super) unsafe fn k_getsockopt(_fd: c_int, _level: c_int, _name: c_int, value: *mut c_void, _len: *mut libc::socklen_t) -> c_int {
    if WAITS == SOOPT_FAILS_AT {
        set_errno(libc::EBADF);
        return -1;
    }
    *value.cast::<c_int>() = if WAITS == SOERR_AT { libc::ECONNREFUSED } else { 0 };
    0
}

fn connect_env() -> bool {
    any_script(); // resets the shared environment model (clock, mode flag, limit, wait bookkeeping)
    unsafe {
        CONN_FIRST = kani::any();
        kani::assume(CONN_FIRST <= 3);
        CONN_CALLS = 0;
        PROBES = 0;
        CONNECTED_AT = kani::any();
        SOERR_AT = kani::any();
        SOOPT_FAILS_AT = kani::any();
        // the peer answers within 3 waits (keeps the slice loop bounded; with the 15 ms limit it ends by itself).
        // The probes run after a wait, i.e. with WAITS >= 1; WAIT_FAILS_AT counts from 0.
        kani::assume(CONNECTED_AT <= 3 || (1..=3).contains(&SOERR_AT) || (1..=3).contains(&SOOPT_FAILS_AT) || WAIT_FAILS_AT <= 2 || LIMIT != u64::MAX);
        BLOCKING
    }
}

io_harness!(c18_mode_connect, 6, {
    let blocking0 = connect_env();
    let f: extern "C" fn(c_int, *const libc::sockaddr, libc::socklen_t) -> c_int = mock_connect;
    let addr: libc::sockaddr = unsafe { std::mem::zeroed() };
    let r = connect(Some(&f), FD, &raw const addr, size_of::<libc::sockaddr>() as libc::socklen_t);
    unsafe {
        kani::assert(BLOCKING == blocking0, "connect leaves the descriptor's blocking mode exactly as the caller set it");
        kani::assert(r == 0 || r == -1, "connect returns 0 or -1");
        if CONN_FIRST == 0 {
            kani::assert(r == 0 && WAITS == 0, "a connect the kernel completes at once succeeds without waiting");
        }
        if CONN_FIRST == 2 {
            kani::assert(r == -1 && *errno_location() == libc::ECONNREFUSED && WAITS == 0, "a refused connect fails at once with the kernel's errno");
        }
        kani::assert(WAIT_FD_OK, "writability is awaited on the caller's descriptor");
        kani::cover!(blocking0 && CONN_FIRST == 0, "blocking descriptor, connected synchronously");
        kani::cover!(blocking0 && CONN_FIRST == 1 && r == 0 && WAITS >= 2, "blocking descriptor, connected after two waits");
        kani::cover!(!blocking0 && r == -1, "non-blocking descriptor, failure");
        kani::cover!(CONN_FIRST == 1 && r == -1 && *errno_location() == libc::ECONNREFUSED, "asynchronous refusal reported through SO_ERROR");
    }
});

// ---- accept / accept4 ---------------------------------------------------------------------------
// kernel: per call one response of the shared script: kind 0/4 -> a new descriptor (40 + n), 1 EAGAIN, 2 EINTR, 3 ECONNRESET
static mut ACC_CALLS: u32 = 0x77;
static mut ACC_LAST: c_int = 0x78;
fn accept_resp() -> c_int {
    unsafe {
        let i = ACC_CALLS as usize;
        ACC_CALLS += 1;
        let r = if i < K { SCRIPT[i] } else { Resp { kind: 3, n: 0 } };
        let (ret, e) = match r.kind {
            0 | 4 => (40 + r.n as c_int, 0),
            1 => (-1, libc::EAGAIN),
            2 => (-1, libc::EINTR),
            _ => (-1, libc::ECONNABORTED),
        };
        if ret == -1 {
            LAST_ERRNO = e;
            set_errno(e);
        }
        ACC_LAST = ret;
        ret
    }
}
extern "C" fn mock_accept(_fd: c_int, _a: *mut libc::sockaddr, _l: *mut libc::socklen_t) -> c_int {
    accept_resp()
}
extern "C" fn mock_accept4(_fd: c_int, _a: *mut libc::sockaddr, _l: *mut libc::socklen_t, _f: c_int) -> c_int {
    accept_resp()
}

fn accept_oracle(blocking0: bool, r: c_int) {
    unsafe {
        kani::assert(BLOCKING == blocking0, "accept leaves the descriptor's blocking mode exactly as the caller set it");
        if r != -1 {
            kani::assert(r == ACC_LAST && r >= 41, "accept returns the descriptor the kernel handed out");
        }
        kani::assert(WAIT_FD_OK, "readability is awaited on the caller's descriptor");
        kani::cover!(blocking0 && r >= 41 && WAITS >= 1, "blocking descriptor: would-block, wait, then a connection");
        kani::cover!(!blocking0 && r == -1, "non-blocking descriptor, failure");
        kani::cover!(LIMIT != u64::MAX && WAITS >= 2 && r == -1, "time limit expires");
    }
}

io_harness!(c18_mode_accept, 7, {
    any_script();
    unsafe { ACC_CALLS = 0 };
    let blocking0 = unsafe { BLOCKING };
    let f: extern "C" fn(c_int, *mut libc::sockaddr, *mut libc::socklen_t) -> c_int = mock_accept;
    let r = accept(Some(&f), FD, std::ptr::null_mut(), std::ptr::null_mut());
    accept_oracle(blocking0, r);
});

#[cfg(target_os = "linux")]
io_harness!(c18_mode_accept4, 7, {
    any_script();
    unsafe { ACC_CALLS = 0 };
    let blocking0 = unsafe { BLOCKING };
    let f: extern "C" fn(c_int, *mut libc::sockaddr, *mut libc::socklen_t, c_int) -> c_int = mock_accept4;
    let r = accept4(Some(&f), FD, std::ptr::null_mut(), std::ptr::null_mut(), 0);
    accept_oracle(blocking0, r);
});
