"""Driver: builds the scratch tree from /repo's working tree, discharges the property's harnesses
with cargo-kani (CBMC + SAT), classifies every failed check against known_findings.txt, replays
new counterexamples natively where a replayer exists, writes /verif/evidence/<id>.json.

Exit codes: 0 property held on everything explored (known findings only print KNOWN-FINDING),
            1 VIOLATION (a failed check that is not a listed known finding),
            2 infrastructure problem / inconclusive (timeout, OOM, vacuous harness, build error,
              counterexample that does not reproduce natively) - never reported as success.
"""
import json
import os
import re
import resource
import shutil
import subprocess
import sys
import time

sys.path.insert(0, os.path.dirname(os.path.abspath(__file__)))
import prep  # noqa: E402
import registry  # noqa: E402

VERIF = prep.VERIF
EVID = os.path.join(VERIF, "evidence")
KNOWN = os.path.join(VERIF, "known_findings.txt")

KANI_BASE = [
    "cargo", "kani", "-p", "open-coroutine-core", "--no-default-features", "--features", "syscall",
    "-Z", "stubbing", "-Z", "unstable-options", "-Z", "mem-predicates", "--ignore-global-asm", "--no-assertion-reach-checks",
    "--output-format", "terse",
]


def log(*a):
    print(*a, flush=True)


def load_known():
    known, fixed = [], []
    if os.path.isfile(KNOWN):
        for line in open(KNOWN, encoding="utf-8"):
            line = line.strip()
            if not line or line.startswith("#"):
                continue
            if line.startswith("fixed:"):
                fixed.append(line)
                continue
            m = re.match(r"known:\s+property=(\S+)\s+harness=(\S+)\s+check=\"([^\"]*)\"\s*::\s*(.*)", line)
            if m:
                known.append({"property": m.group(1), "harness": m.group(2),
                              "check": m.group(3), "what": m.group(4)})
            else:
                raise prep.InfraError(f"unparsable line in known_findings.txt: {line}")
    return known, fixed


def _limits(mem_gb):
    def f():
        b = int(mem_gb * (1 << 30))
        resource.setrlimit(resource.RLIMIT_AS, (b, b))
    return f


def run_kani(scratch, harnesses, jobs, timeout_s, mem_gb, extra, tag, cfgs=()):
    """One cargo-kani invocation for a set of harnesses. Returns (json or None, text log, wall)."""
    out_json = os.path.join(scratch, f"result-{tag}.json")
    cmd = list(KANI_BASE)
    for h in harnesses:
        cmd += ["--harness", h]
    cmd += ["--exact"]  # fully qualified names: `c16_read` must not also select `c16_readv`
    cmd += ["-j", str(jobs), "--harness-timeout", f"{timeout_s}s", "--export-json", out_json,
            "--target-dir", os.path.join(scratch, "target")]
    cmd += extra
    env = dict(os.environ)
    env.update({"CARGO_NET_OFFLINE": "true", "RUSTFLAGS": " ".join(["--cap-lints=allow"] + [f"--cfg {c}" for c in cfgs]),
                "CARGO_TERM_COLOR": "never"})
    env.pop("RUSTUP_TOOLCHAIN", None)
    t0 = time.time()
    logp = os.path.join(scratch, f"kani-{tag}.log")
    with open(logp, "w") as lf:
        try:
            p = subprocess.run(cmd, cwd=scratch, env=env, stdout=lf, stderr=subprocess.STDOUT,
                               timeout=timeout_s * max(1, (len(harnesses) + jobs - 1) // jobs) + 900,
                               preexec_fn=_limits(mem_gb))
            rc = p.returncode
        except subprocess.TimeoutExpired:
            rc = -9
    wall = time.time() - t0
    text = open(logp, errors="replace").read()
    data = None
    if os.path.isfile(out_json):
        try:
            data = json.load(open(out_json))
        except Exception:
            data = None
    return data, text, wall, rc


def qualify(mounts, harness):
    """Fully qualified harness name (module path of the mount whose file defines it)."""
    hits = []
    for hfile, target in mounts:
        txt = open(os.path.join(prep.HARNESS, hfile), encoding="utf-8").read()
        if re.search(r"\b" + re.escape(harness) + r"\b", txt):
            mod = target[:-len("/mod.rs")] if target.endswith("/mod.rs") else target[:-len(".rs")]
            hits.append(mod.replace("/", "::") + "::verif_" + os.path.splitext(hfile)[0] + "::" + harness)
    if len(hits) != 1:
        raise prep.InfraError(f"harness {harness}: defined in {len(hits)} mounted files (expected 1)")
    return hits[0]


def analyse(data, text, wanted):
    """Per harness: status, failed checks, cover results, solver stats."""
    res = {}
    if data is None:
        return res
    stats = {c["harness_id"]: (c.get("cbmc_stats") or {}) for c in (data.get("cbmc") or [])}
    for r in data.get("verification_results", {}).get("results", []):
        hid = r["harness_id"]
        short = hid.split("::")[-1]
        checks = r.get("checks", [])
        failed, covers_unsat, covers_sat, undet = [], [], [], []
        for c in checks:
            st = c.get("status", "")
            desc = c.get("description", "")
            cat = c.get("category", "")
            loc = c.get("location", {})
            where = f"{os.path.basename(str(loc.get('file', '?')))}:{loc.get('line', '?')}"
            if cat == "cover":
                (covers_sat if st.lower().startswith("satisf") else covers_unsat).append(desc)
            elif st.lower() in ("failure", "failed"):
                failed.append({"description": desc, "category": cat, "where": where,
                               "function": c.get("function", "")})
            elif st.lower() in ("undetermined", "error"):
                undet.append({"description": desc, "where": where})
            elif st.lower() not in ("success", "unreachable", "satisfied", "unsatisfiable", "unsatisfied"):
                # any other status (e.g. an unsupported construct that is reachable) is a failed check of its own kind
                failed.append({"description": f"[{st}] {desc}", "category": cat, "where": where,
                               "function": c.get("function", "")})
        res[short] = {
            "id": hid, "status": r.get("status"), "duration_ms": r.get("duration_ms"),
            "n_checks": len(checks), "failed": failed, "covers_sat": covers_sat,
            "covers_unsat": covers_unsat, "undetermined": undet, "stats": stats.get(hid, {}),
        }
    return res


def sat_size(text):
    """(variables, clauses) maxima seen in the log, if CBMC printed them."""
    best = (0, 0)
    for m in re.finditer(r"(\d+) variables, (\d+) clauses", text):
        v, c = int(m.group(1)), int(m.group(2))
        if v > best[0]:
            best = (v, c)
    return best


def main(argv):
    import argparse
    ap = argparse.ArgumentParser()
    ap.add_argument("prop")
    ap.add_argument("--tier", default=os.environ.get("VERIF_TIER", "quick"), choices=["quick", "thorough"])
    ap.add_argument("--only", default=None, help="substring filter on harness names (debug)")
    ap.add_argument("--keep", action="store_true", help="keep the scratch tree (debug)")
    ap.add_argument("--replay", default=None, help="re-run the replayer on a saved counterexample")
    ap.add_argument("--no-evidence", action="store_true")
    args = ap.parse_args(argv)
    pid = args.prop
    seed = int(os.environ.get("VERIF_SEED", "0") or 0)
    if pid not in registry.PROPS:
        log(f"unknown or not-applicable property {pid}")
        return 2
    cfg = registry.PROPS[pid]
    t_start = time.time()
    known, _fixed = load_known()
    known = [k for k in known if k["property"] == pid]

    if args.replay:
        import replay_native
        return replay_native.replay_file(pid, args.replay)

    groups = [g for g in cfg["groups"] if args.tier == "thorough" or g.get("tier", "quick") == "quick"]
    # VERIF_SEED only permutes the order in which groups/harnesses are discharged
    if seed:
        import random
        rnd = random.Random(seed)
        rnd.shuffle(groups)
    all_results = {}
    infra = []
    total_wall_solver = 0.0
    applied_all = []
    max_sat = (0, 0)
    for gi, g in enumerate(groups):
        harnesses = list(g["harnesses"])
        if args.tier == "thorough":
            harnesses += list(g.get("thorough_harnesses", []))
        if args.only:
            harnesses = [h for h in harnesses if re.search(args.only, h)]
            if not harnesses:
                continue
        try:
            scratch, applied = prep.make_scratch(
                g["mounts"], atomics_files=g.get("atomics", ()), extra_subs=g.get("subs", ()))
        except prep.InfraError as e:
            log(f"INFRA: {e}")
            infra.append(str(e))
            continue
        applied_all += [a for a in applied if a not in applied_all]
        try:
            timeout_s = g.get("timeout_thorough", 1800) if args.tier == "thorough" else g.get("timeout", 300)
            jobs = min(g.get("jobs", 8), max(1, len(harnesses)))
            extra = list(g.get("kani_args", [])) + os.environ.get("VERIF_KANI_EXTRA", "").split()
            log(f"[{pid}] group {gi + 1}/{len(groups)}: {len(harnesses)} harness(es), tier={args.tier}, "
                f"timeout={timeout_s}s/harness, jobs={jobs}")
            qualified = [qualify(g["mounts"], h) for h in harnesses]
            data, text, wall, rc = run_kani(scratch, qualified, jobs, timeout_s, g.get("mem_gb", 20), extra, f"g{gi}",
                                              cfgs=g.get("cfgs", ()))
            res = analyse(data, text, harnesses)
            v = sat_size(text)
            if v[0] > max_sat[0]:
                max_sat = v
            if data is None:
                tail = "\n".join(text.splitlines()[-40:])
                log(f"INFRA: cargo kani produced no result file (rc={rc}). Log tail:\n{tail}")
                infra.append(f"group {gi}: no result (rc={rc})")
            missing = [h for h in harnesses if h not in res]
            if data is not None and missing:
                infra.append(f"harnesses not reported (filter matched nothing or crash): {missing}")
                log(f"INFRA: harnesses not reported: {missing}")
            for h, r in sorted(res.items()):
                st_ = r.get("stats") or {}
                log(f"  {h}: {r['status']} checks={r['n_checks']} failed={len(r['failed'])} "
                    f"symex={st_.get('runtime_symex_s')}s solver={st_.get('runtime_solver_s')}s total={r.get('duration_ms')}ms")
            for h, r in res.items():
                r["group"] = gi
                r["bounds"] = g.get("bounds", "")
                all_results[h] = r
            if args.keep:
                log(f"scratch kept at {scratch}")
            # counterexample extraction (needed for replay) only for failures no known finding explains
            for h, r in res.items():
                unexplained = [f for f in r["failed"]
                               if not any(k["harness"] == h and k["check"] in f["description"] for k in known)]
                import replay_native
                if unexplained and g.get("playback", True) and replay_native.needs_values(h):
                    r["playback"] = extract_playback(scratch, r["id"], extra, timeout_s, g.get("mem_gb", 20), cfgs=g.get("cfgs", ()))
        finally:
            if not args.keep:
                shutil.rmtree(scratch, ignore_errors=True)

    # classify
    violations, known_hits, inconclusive = [], [], list(infra)
    for h, r in sorted(all_results.items()):
        st = (r["status"] or "").lower()
        if r["covers_unsat"] and not r["failed"]:
            inconclusive.append(f"{h}: vacuity witness not satisfied: {r['covers_unsat']}")
        if r["undetermined"] and not r["failed"]:
            inconclusive.append(f"{h}: undetermined checks {r['undetermined'][:3]}")
        if st == "success" and not r["failed"]:
            continue
        if not r["failed"]:
            inconclusive.append(f"{h}: status={r['status']} without failed checks (timeout/OOM/crash)")
            continue
        # An unwinding assertion says "this loop can run longer than the harness bound". Unless termination is what the
        # property is about (cfg unwind_is_property), that is a bound of the harness that was too small for this tree -
        # inconclusive, never a verdict.
        if not cfg.get("unwind_is_property"):
            unw = [f for f in r["failed"] if "unwinding assertion" in f["description"]]
            if unw:
                inconclusive.append(f"{h}: loop bound of the harness exceeded ({unw[0]['description']} @ {unw[0]['where']})")
                r["failed"] = [f for f in r["failed"] if f not in unw]
                if not r["failed"]:
                    continue
        for f in r["failed"]:
            hit = None
            for k in known:
                if k["harness"] == h and k["check"] in f["description"]:
                    hit = k
                    break
            if hit:
                known_hits.append((hit, h, f))
            else:
                violations.append((h, f, r.get("playback")))

    rc = 0
    printed = set()
    for k, h, f in known_hits:
        key = (k["harness"], k["check"])
        if key in printed:
            continue
        printed.add(key)
        log(f"KNOWN-FINDING: property={pid} {k['what']} [harness={h} check=\"{k['check']}\"]")
    replay_records = []
    if violations:
        import replay_native
        os.makedirs(os.path.join(EVID, "replay"), exist_ok=True)
        seen = set()
        for h, f, pb in violations:
            if h in seen:
                continue
            seen.add(h)
            path = os.path.join(EVID, "replay", f"{pid}-{h}.json")
            fails = [x for (hh, x, _) in violations if hh == h]
            rec = {"property": pid, "harness": h, "failed_checks": fails, "kani_values": pb,
                   "repo": prep.repo_fingerprint()}
            verdict = replay_native.try_replay(pid, h, rec)
            rec["native_replay"] = verdict
            json.dump(rec, open(path, "w"), indent=1)
            replay_records.append(rec)
            if verdict.get("status") == "not_reproduced":
                log(f"INCONCLUSIVE: counterexample of {h} did not reproduce natively ({verdict.get('detail', '')}); "
                    f"model/stub suspected, see {path}")
                inconclusive.append(f"{h}: counterexample not reproduced natively")
                continue
            for x in fails[:4]:
                log(f"  failed check in {h}: {x['description']} @ {x['where']}")
            log(f"VIOLATION property={pid} replay={path}")
            rc = 1
    if rc == 0 and inconclusive:
        for m in inconclusive:
            log(f"INCONCLUSIVE: {m}")
        rc = 2

    wall = time.time() - t_start
    if not args.no_evidence and not args.only:
        write_evidence(pid, cfg, args.tier, seed, all_results, known_hits, violations, inconclusive,
                       applied_all, wall, max_sat)
    n_ok = sum(1 for r in all_results.values() if (r["status"] or "").lower() == "success")
    log(f"[{pid}] {n_ok}/{len(all_results)} harnesses verified, {len(printed)} known finding(s), "
        f"{len(set(h for h, _, _ in violations))} violating harness(es), {len(inconclusive)} inconclusive, "
        f"wall {wall:.0f}s -> exit {rc}")
    return rc


def extract_playback(scratch, harness, extra, timeout_s, mem_gb, cfgs=()):
    """Ask Kani for the concrete assignment of a failed harness (`--concrete-playback=print`)."""
    cmd = [c for c in KANI_BASE if c != "terse"]
    cmd = cmd[:-1] if cmd[-1] == "--output-format" else cmd
    cmd = [c for c in cmd]
    cmd += ["--harness", harness, "--exact", "-Z", "concrete-playback", "--concrete-playback=print",
            "--target-dir", os.path.join(scratch, "target")] + extra
    env = dict(os.environ)
    env.update({"CARGO_NET_OFFLINE": "true", "RUSTFLAGS": " ".join(["--cap-lints=allow"] + [f"--cfg {c}" for c in cfgs]),
                "CARGO_TERM_COLOR": "never"})
    try:
        p = subprocess.run(cmd, cwd=scratch, env=env, capture_output=True, text=True,
                           timeout=timeout_s + 600, preexec_fn=_limits(mem_gb))
    except subprocess.TimeoutExpired:
        return {"error": "timeout extracting playback"}
    out = p.stdout + p.stderr
    m = re.search(r"let concrete_vals: Vec<Vec<u8>> = vec!\[(.*?)\];", out, re.S)
    if not m:
        return {"error": "no concrete values printed"}
    vals = []
    for vm in re.finditer(r"//\s*(.*?)\n\s*vec!\[([^\]]*)\]", m.group(1)):
        comment = vm.group(1).strip()
        by = [int(x) for x in vm.group(2).replace(" ", "").split(",") if x]
        vals.append({"repr": comment, "bytes": by})
    return {"values": vals}


def write_evidence(pid, cfg, tier, seed, results, known_hits, violations, inconclusive, applied, wall, max_sat):
    os.makedirs(EVID, exist_ok=True)
    samples = []
    n_checks = 0
    solver_s = 0.0
    symex_s = 0.0
    covers = 0
    nontrivial = 0
    for h, r in sorted(results.items()):
        n_checks += r["n_checks"]
        st = r.get("stats") or {}
        solver_s += float(st.get("runtime_solver_s", 0) or 0)
        symex_s += float(st.get("runtime_symex_s", 0) or 0)
        covers += len(r["covers_sat"])
        decided = (r["status"] or "").lower() in ("success", "failure")
        if decided and (r["covers_sat"] or r["failed"]):
            nontrivial += 1
        samples.append({
            "harness": r["id"], "verdict": r["status"], "cbmc_properties": r["n_checks"],
            "failed": [f["description"] for f in r["failed"]][:6],
            "reachability_witnesses_satisfied": r["covers_sat"],
            "bounds": r.get("bounds", ""),
            "solver_s": st.get("runtime_solver_s"), "symex_s": st.get("runtime_symex_s"),
            "vccs": st.get("vccs_generated"), "program_size": st.get("size_program_expression"),
        })
    ev = {
        "property_id": pid,
        "tier": tier,
        "seed": seed,
        "level": "model_checking",
        "coverage": {
            "evaluations": max(n_checks, 1),
            "distinct_nontrivial": nontrivial,
            "rule": ("evaluations = CBMC properties (assertions, unwinding assertions, overflow/pointer checks, "
                     "reachability witnesses) decided by the SAT solver over all harnesses of this run; each harness is one "
                     "bounded symbolic query over the real functions listed in functions_encoded. distinct_nontrivial = "
                     "harnesses that were decided AND whose kani::cover! reachability witnesses were satisfied (or that "
                     "produced a counterexample), i.e. non-vacuous solver queries."),
            "samples": samples,
            "exhaustive": False,
            "technique": "bounded symbolic execution of the real Rust source (Kani 0.68 / CBMC 6.11 / CaDiCaL)",
            "functions_encoded": cfg.get("functions", []),
            "bounds": cfg.get("bounds", ""),
            "outside_claim": cfg.get("outside", ""),
            "harnesses": len(results),
            "queries_discharged": sum(1 for r in results.values() if (r["status"] or "").lower() in ("success", "failure")),
            "solver_seconds": round(solver_s, 3),
            "symex_seconds": round(symex_s, 3),
            "sat_variables_max": max_sat[0],
            "sat_clauses_max": max_sat[1],
            "reachability_witnesses_satisfied": covers,
            "known_findings_reproduced": sorted(set(k["what"] for k, _, _ in known_hits)),
            "inconclusive": inconclusive,
            "environment_substitutions": applied,
            "repo": prep.repo_fingerprint(),
        },
        "assumptions": cfg.get("assumptions", []) + [
            "third-party crates replaced by the model crates in /verif/kani/models (sequential contracts, stated size bounds)",
            "Kani/CBMC/CaDiCaL are trusted; verdicts hold only inside the stated bounds (unwinding assertions on)",
        ],
        "wall_s": round(wall, 2),
        "violations": len(set(h for h, _, _ in violations)),
    }
    json.dump(ev, open(os.path.join(EVID, f"{pid}.json"), "w"), indent=1)


if __name__ == "__main__":
    try:
        sys.exit(main(sys.argv[1:]))
    except prep.InfraError as e:
        log(f"INFRA: {e}")
        sys.exit(2)
