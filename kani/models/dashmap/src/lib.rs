//! Model of the `dashmap` API subset used by open-coroutine: a linearizable map / set with the
//! documented sequential contract, array-backed, at most `CAP` entries (exceeding it fails loudly).
//! Every operation starts with a scheduling point (DESIGN §2.7).
use core::borrow::Borrow;
use core::cell::UnsafeCell;
use core::ops::{Deref, DerefMut};

/// Maximum number of live entries of one map (2 when the build is configured with `--cfg ocv_small`: harness groups that need
/// no more entries run at a lower unwind bound, which also bounds the recursion CBMC sees in io::Error's drop glue).
#[cfg(not(ocv_small))]
pub const CAP: usize = 4;
#[cfg(ocv_small)]
pub const CAP: usize = 2;
/// Scheduling-point site id of map operations.
pub const SITE: u32 = 1;

pub struct DashMap<K, V> {
    slots: UnsafeCell<[Option<(K, V)>; CAP]>,
    /// number of live `Ref`/`RefMut`/`RefMulti` guards per slot. The real map keeps the shard of
    /// a referenced entry locked while such a guard lives; a write to the *same key* from the same
    /// thread then self-deadlocks (dashmap documents this). The model reports that as a failure.
    guards: UnsafeCell<[u8; CAP]>,
}
unsafe impl<K, V> Sync for DashMap<K, V> {}
unsafe impl<K, V> Send for DashMap<K, V> {}

impl<K, V> Default for DashMap<K, V> {
    fn default() -> Self {
        Self::new()
    }
}
impl<K, V> core::fmt::Debug for DashMap<K, V> {
    fn fmt(&self, f: &mut core::fmt::Formatter<'_>) -> core::fmt::Result {
        f.write_str("DashMap")
    }
}

pub mod mapref {
    pub mod one {
        pub use crate::{Ref, RefMut};
    }
    pub mod multiple {
        pub use crate::RefMulti;
    }
}

pub struct Ref<'a, K, V> {
    k: &'a K,
    v: &'a V,
    g: *mut u8,
}
impl<K, V> Drop for Ref<'_, K, V> {
    fn drop(&mut self) {
        unsafe { *self.g -= 1 }
    }
}
impl<'a, K, V> Ref<'a, K, V> {
    pub fn key(&self) -> &K {
        self.k
    }
    pub fn value(&self) -> &V {
        self.v
    }
    pub fn pair(&self) -> (&K, &V) {
        (self.k, self.v)
    }
}
impl<K, V> Deref for Ref<'_, K, V> {
    type Target = V;
    fn deref(&self) -> &V {
        self.v
    }
}

pub struct RefMut<'a, K, V> {
    k: &'a K,
    v: &'a mut V,
    g: *mut u8,
}
impl<K, V> Drop for RefMut<'_, K, V> {
    fn drop(&mut self) {
        unsafe { *self.g -= 1 }
    }
}
impl<'a, K, V> RefMut<'a, K, V> {
    pub fn key(&self) -> &K {
        self.k
    }
    pub fn value(&self) -> &V {
        self.v
    }
    pub fn value_mut(&mut self) -> &mut V {
        self.v
    }
}
impl<K, V> Deref for RefMut<'_, K, V> {
    type Target = V;
    fn deref(&self) -> &V {
        self.v
    }
}
impl<K, V> DerefMut for RefMut<'_, K, V> {
    fn deref_mut(&mut self) -> &mut V {
        self.v
    }
}

pub struct RefMulti<'a, K, V> {
    k: &'a K,
    v: &'a V,
    g: *mut u8,
}
impl<K, V> Drop for RefMulti<'_, K, V> {
    fn drop(&mut self) {
        unsafe { *self.g -= 1 }
    }
}
impl<'a, K, V> RefMulti<'a, K, V> {
    pub fn key(&self) -> &K {
        self.k
    }
    pub fn value(&self) -> &V {
        self.v
    }
    pub fn pair(&self) -> (&K, &V) {
        (self.k, self.v)
    }
}
impl<K, V> Deref for RefMulti<'_, K, V> {
    type Target = V;
    fn deref(&self) -> &V {
        self.v
    }
}

pub struct Iter<'a, K, V> {
    map: &'a DashMap<K, V>,
    i: usize,
}
impl<'a, K, V> Iterator for Iter<'a, K, V> {
    type Item = RefMulti<'a, K, V>;
    fn next(&mut self) -> Option<Self::Item> {
        let slots = unsafe { &*self.map.slots.get() };
        while self.i < CAP {
            let i = self.i;
            self.i += 1;
            if let Some((k, v)) = &slots[i] {
                return Some(RefMulti { k, v, g: self.map.guard(i) });
            }
        }
        None
    }
}
impl<'a, K, V> IntoIterator for &'a DashMap<K, V> {
    type Item = RefMulti<'a, K, V>;
    type IntoIter = Iter<'a, K, V>;
    fn into_iter(self) -> Self::IntoIter {
        self.iter()
    }
}

impl<K, V> DashMap<K, V> {
    pub fn new() -> Self {
        DashMap {
            slots: UnsafeCell::new([const { None }; CAP]),
            guards: UnsafeCell::new([0; CAP]),
        }
    }
    #[allow(clippy::mut_from_ref)]
    fn slots(&self) -> &mut [Option<(K, V)>; CAP] {
        unsafe { &mut *self.slots.get() }
    }
    fn guard(&self, i: usize) -> *mut u8 {
        unsafe {
            let g = &mut (*self.guards.get())[i];
            *g += 1;
            g as *mut u8
        }
    }
    fn check_unlocked(&self, i: usize) {
        let held = unsafe { (*self.guards.get())[i] };
        assert!(held == 0, "dashmap: write to an entry while a reference into the same map is held by this thread (self-deadlock in the real crate)");
    }
    pub fn iter(&self) -> Iter<'_, K, V> {
        verif_rt::yield_point(SITE);
        Iter { map: self, i: 0 }
    }
    pub fn len(&self) -> usize {
        verif_rt::yield_point(SITE);
        let mut n = 0;
        let mut i = 0;
        while i < CAP {
            if self.slots()[i].is_some() {
                n += 1;
            }
            i += 1;
        }
        n
    }
    pub fn is_empty(&self) -> bool {
        self.len() == 0
    }
    pub fn clear(&self) {
        verif_rt::yield_point(SITE);
        let mut i = 0;
        while i < CAP {
            self.slots()[i] = None;
            i += 1;
        }
    }
    /// Model-only: overwrite slot `i` (no scheduling point, no search). Lets a harness build an arbitrary map state from
    /// symbolic components without the branching that conditional `insert` calls cost. The caller keeps keys distinct.
    pub fn verif_set_slot(&self, i: usize, e: Option<(K, V)>) {
        self.slots()[i] = e;
    }
    /// Model-only: number of live entries without a scheduling point.
    pub fn verif_len(&self) -> usize {
        let mut n = 0;
        let mut i = 0;
        while i < CAP {
            if self.slots()[i].is_some() {
                n += 1;
            }
            i += 1;
        }
        n
    }
}

impl<K: Eq, V> DashMap<K, V> {
    fn find<Q>(&self, key: &Q) -> Option<usize>
    where
        K: Borrow<Q>,
        Q: Eq + ?Sized,
    {
        let slots = self.slots();
        let mut i = 0;
        while i < CAP {
            if let Some((k, _)) = &slots[i] {
                if k.borrow() == key {
                    return Some(i);
                }
            }
            i += 1;
        }
        None
    }

    pub fn insert(&self, key: K, value: V) -> Option<V> {
        verif_rt::yield_point(SITE);
        let slots = self.slots();
        if let Some(i) = self.find(&key) {
            self.check_unlocked(i);
            let old = slots[i].take();
            slots[i] = Some((key, value));
            return old.map(|(_, v)| v);
        }
        let mut i = 0;
        while i < CAP {
            if slots[i].is_none() {
                slots[i] = Some((key, value));
                return None;
            }
            i += 1;
        }
        verif_rt::bound_exceeded("dashmap CAP")
    }

    pub fn get<Q>(&self, key: &Q) -> Option<Ref<'_, K, V>>
    where
        K: Borrow<Q>,
        Q: Eq + ?Sized,
    {
        verif_rt::yield_point(SITE);
        let slots = unsafe { &*self.slots.get() };
        match self.find(key) {
            Some(i) => {
                let g = self.guard(i);
                slots[i].as_ref().map(|(k, v)| Ref { k, v, g })
            }
            None => None,
        }
    }

    pub fn get_mut<Q>(&self, key: &Q) -> Option<RefMut<'_, K, V>>
    where
        K: Borrow<Q>,
        Q: Eq + ?Sized,
    {
        verif_rt::yield_point(SITE);
        let slots = unsafe { &mut *self.slots.get() };
        match self.find(key) {
            Some(i) => {
                self.check_unlocked(i);
                let g = self.guard(i);
                slots[i].as_mut().map(|(k, v)| RefMut { k: &*k, v, g })
            }
            None => None,
        }
    }

    pub fn remove<Q>(&self, key: &Q) -> Option<(K, V)>
    where
        K: Borrow<Q>,
        Q: Eq + ?Sized,
    {
        verif_rt::yield_point(SITE);
        match self.find(key) {
            Some(i) => {
                self.check_unlocked(i);
                self.slots()[i].take()
            }
            None => None,
        }
    }

    pub fn contains_key<Q>(&self, key: &Q) -> bool
    where
        K: Borrow<Q>,
        Q: Eq + ?Sized,
    {
        verif_rt::yield_point(SITE);
        self.find(key).is_some()
    }
}

/// `DashMap::entry`: the shard stays locked from `entry()` until the `Entry` is consumed, so the whole
/// get-or-insert is ONE atomic step: one scheduling point at `entry()`, none inside.
pub struct Entry<'a, K, V> {
    map: &'a DashMap<K, V>,
    key: K,
    at: Option<usize>,
}
pub mod mapref_entry {
    pub use crate::Entry;
}
impl<'a, K: Eq, V> Entry<'a, K, V> {
    pub fn or_insert_with(self, value: impl FnOnce() -> V) -> RefMut<'a, K, V> {
        let slots = unsafe { &mut *self.map.slots.get() };
        let i = match self.at {
            Some(i) => i,
            None => {
                let mut free = CAP;
                let mut i = 0;
                while i < CAP {
                    if slots[i].is_none() && free == CAP {
                        free = i;
                    }
                    i += 1;
                }
                if free == CAP {
                    verif_rt::bound_exceeded("dashmap CAP")
                }
                slots[free] = Some((self.key, value()));
                free
            }
        };
        let g = self.map.guard(i);
        match slots[i].as_mut() {
            Some((k, v)) => RefMut { k: &*k, v, g },
            None => verif_rt::bound_exceeded("dashmap entry slot"),
        }
    }
    pub fn or_insert(self, value: V) -> RefMut<'a, K, V> {
        self.or_insert_with(|| value)
    }
    pub fn or_default(self) -> RefMut<'a, K, V>
    where
        V: Default,
    {
        self.or_insert_with(V::default)
    }
}
impl<K: Eq, V> DashMap<K, V> {
    pub fn entry(&self, key: K) -> Entry<'_, K, V> {
        verif_rt::yield_point(SITE);
        let at = self.find(&key);
        if let Some(i) = at {
            self.check_unlocked(i);
        }
        Entry { map: self, key, at }
    }
}

pub struct DashSet<K> {
    inner: DashMap<K, ()>,
}
unsafe impl<K> Sync for DashSet<K> {}
unsafe impl<K> Send for DashSet<K> {}
impl<K> Default for DashSet<K> {
    fn default() -> Self {
        Self::new()
    }
}
impl<K> core::fmt::Debug for DashSet<K> {
    fn fmt(&self, f: &mut core::fmt::Formatter<'_>) -> core::fmt::Result {
        f.write_str("DashSet")
    }
}
impl<K> DashSet<K> {
    pub fn new() -> Self {
        DashSet {
            inner: DashMap::new(),
        }
    }
    pub fn len(&self) -> usize {
        self.inner.len()
    }
    pub fn is_empty(&self) -> bool {
        self.inner.is_empty()
    }
    pub fn verif_len(&self) -> usize {
        self.inner.verif_len()
    }
    /// Model-only: see `DashMap::verif_set_slot`.
    pub fn verif_set_slot(&self, i: usize, k: Option<K>) {
        self.inner.verif_set_slot(i, k.map(|k| (k, ())));
    }
    pub fn clear(&self) {
        self.inner.clear()
    }
}
impl<K: Eq> DashSet<K> {
    /// Returns `true` if the key was not present before.
    pub fn insert(&self, key: K) -> bool {
        self.inner.insert(key, ()).is_none()
    }
    pub fn remove<Q>(&self, key: &Q) -> Option<K>
    where
        K: Borrow<Q>,
        Q: Eq + ?Sized,
    {
        self.inner.remove(key).map(|(k, ())| k)
    }
    pub fn contains<Q>(&self, key: &Q) -> bool
    where
        K: Borrow<Q>,
        Q: Eq + ?Sized,
    {
        self.inner.contains_key(key)
    }
}
