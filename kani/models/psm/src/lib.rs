//! Model of `psm::stack_pointer()`: the harness sets the value the "hardware" reports.
#![allow(static_mut_refs)]
static mut SP: (usize, u64) = (0, 0x5a5a_0011); // (tagged: see the note in the corosensei model)

/// Model-only: set the stack pointer value returned by `stack_pointer`.
pub fn verif_set_stack_pointer(sp: usize) {
    unsafe { SP.0 = sp }
}

pub fn stack_pointer() -> *mut u8 {
    unsafe { SP.0 as *mut u8 }
}

#[derive(Debug, Copy, Clone, PartialEq, Eq)]
pub enum StackDirection {
    Ascending = 1,
    Descending = 2,
}
impl StackDirection {
    pub fn new() -> StackDirection {
        StackDirection::Descending
    }
}
