//! Model of the `corosensei` API subset used by open-coroutine (DESIGN §2.5).
//!
//! No stack is ever switched. A coroutine created with `with_stack` runs in one of two modes,
//! selected by the harness *before* the coroutine is created:
//!
//! * **script mode** (default): the user closure is kept but never called. Each `resume(arg)` asks
//!   the installed step hook to perform the next step of that coroutine's body. The hook performs
//!   the step by calling the repository's own functions (`Suspender::suspend_with/until_with/
//!   cancel`, `Coroutine::syscall`, ...); `Yielder::suspend(v)` records `v` and returns at once, and
//!   `resume` then reports `CoroutineResult::Yield(v)`; a step that stores a return value makes
//!   `resume` report `CoroutineResult::Return(r)`.
//! * **body mode**: `resume` calls the real closure (the wrapper built by `Coroutine::new`,
//!   including `catch!` and the `Suspender` current-stack bookkeeping) and reports its result as
//!   `Return`. A body that suspends in this mode is a model error (fails loudly).
#![allow(static_mut_refs)]
use core::cell::Cell;
use core::marker::PhantomData;

pub mod stack {
    use core::num::NonZeroUsize;
    pub type StackPointer = NonZeroUsize;

    pub const MIN_STACK_SIZE: usize = 4096;

    /// A stack segment `[limit, base)`.
    pub unsafe trait Stack {
        fn base(&self) -> StackPointer;
        fn limit(&self) -> StackPointer;
    }

    static mut NEXT: usize = 0x1000_0000;
    static mut FAIL_NEXT: (bool, u32) = (false, 0x5a5a_0001);
    static mut LIVE: (usize, u64) = (0, 0x5a5a_0002);

    /// Model-only: make the next `DefaultStack::new` fail (allocation failure).
    pub fn verif_fail_next_stack(fail: bool) {
        unsafe { FAIL_NEXT.0 = fail }
    }
    /// Model-only: number of `DefaultStack`s alive.
    pub fn verif_live_stacks() -> usize {
        unsafe { LIVE.0 }
    }

    #[derive(Debug)]
    pub struct DefaultStack {
        base: StackPointer,
        limit: StackPointer,
    }

    impl DefaultStack {
        /// Fresh segment, disjoint from every segment handed out before, of at least `size` bytes.
        pub fn new(size: usize) -> std::io::Result<Self> {
            unsafe {
                if FAIL_NEXT.0 {
                    FAIL_NEXT.0 = false;
                    return Err(std::io::Error::from(std::io::ErrorKind::OutOfMemory));
                }
                let size = if size < MIN_STACK_SIZE { MIN_STACK_SIZE } else { size };
                if size > 0x1000_0000 {
                    return Err(std::io::Error::from(std::io::ErrorKind::OutOfMemory));
                }
                let limit = NEXT;
                let base = limit + size;
                NEXT = base + 0x1000;
                LIVE.0 += 1;
                Ok(DefaultStack {
                    base: NonZeroUsize::new(base).unwrap(),
                    limit: NonZeroUsize::new(limit).unwrap(),
                })
            }
        }
    }
    impl Default for DefaultStack {
        fn default() -> Self {
            Self::new(1024 * 1024).expect("failed to allocate stack")
        }
    }
    impl Drop for DefaultStack {
        fn drop(&mut self) {
            unsafe { LIVE.0 -= 1 }
        }
    }
    unsafe impl Stack for DefaultStack {
        fn base(&self) -> StackPointer {
            self.base
        }
        fn limit(&self) -> StackPointer {
            self.limit
        }
    }
}

pub mod trap {
    /// x86_64 register set of the real crate.
    #[derive(Debug, Copy, Clone)]
    pub struct TrapHandlerRegs {
        pub rip: u64,
        pub rsp: u64,
        pub rbp: u64,
        pub rdi: u64,
        pub rsi: u64,
    }

    pub struct CoroutineTrapHandler<Return> {
        pub(crate) marker: core::marker::PhantomData<fn(Return)>,
    }
    impl<Return> CoroutineTrapHandler<Return> {
        /// Not modelled: trap redirection needs real signal contexts (C24 is not applicable).
        pub unsafe fn setup_trap_handler<F>(&self, _f: F) -> TrapHandlerRegs
        where
            F: FnOnce() -> Return,
        {
            panic!("corosensei model: setup_trap_handler is not modelled")
        }
        pub fn stack_ptr_in_bounds(&self, _stack_ptr: usize) -> bool {
            panic!("corosensei model: stack_ptr_in_bounds is not modelled")
        }
    }
}

pub use stack::DefaultStack;

#[derive(Debug, Copy, Clone, PartialEq, Eq)]
pub enum CoroutineResult<Yield, Return> {
    Yield(Yield),
    Return(Return),
}
impl<Yield, Return> CoroutineResult<Yield, Return> {
    pub fn as_yield(self) -> Option<Yield> {
        match self {
            CoroutineResult::Yield(y) => Some(y),
            CoroutineResult::Return(_) => None,
        }
    }
    pub fn as_return(self) -> Option<Return> {
        match self {
            CoroutineResult::Yield(_) => None,
            CoroutineResult::Return(r) => Some(r),
        }
    }
}

/// Context handed to the step hook; the hook knows the concrete types and casts the pointer.
pub struct StepCtx<Input, Yield, Return> {
    pub yielder: *const Yielder<Input, Yield>,
    /// the argument of this `resume`
    pub input: Option<Input>,
    /// set by the hook when the body returns in this step
    pub ret: Option<Return>,
}

/// `fn(script id, step number, *mut StepCtx<..>)`.
pub type StepHook = fn(usize, usize, *mut ());

// NOTE (Kani 0.68): a constant allocation (e.g. RawVec's ZERO_CAP, read by every Vec::new()/VecDeque::new()) is resolved to an
// already generated static with identical initial bytes; writing that static then changes the "constant" (after the first
// DefaultStack::new() every new VecDeque reported capacity 1). Every static of the model crates therefore carries a non-zero
// tag next to its value, so that its initial bytes are not those of any small zero constant.
static mut STEP_HOOK: (Option<StepHook>, u64) = (None, 0x5a5a_0003);
static mut BODY_MODE: (bool, u32) = (false, 0x5a5a_0004);
static mut NEXT_SCRIPT: (usize, u64) = (0, 0x5a5a_0005);
static mut RESUMES: (usize, u64) = (0, 0x5a5a_0006);

/// Model-only: install the script interpreter.
pub fn verif_set_step_hook(h: Option<StepHook>) {
    unsafe { STEP_HOOK.0 = h }
}
/// Model-only: coroutines created from now on run their real closure at the first `resume`.
pub fn verif_set_body_mode(on: bool) {
    unsafe { BODY_MODE.0 = on }
}
/// Model-only: script id the next created coroutine will get.
pub fn verif_next_script_id() -> usize {
    unsafe { NEXT_SCRIPT.0 }
}
/// Model-only: restart script numbering.
pub fn verif_reset_script_ids() {
    unsafe { NEXT_SCRIPT.0 = 0 }
}
/// Model-only: total number of `resume` calls that actually entered a coroutine.
pub fn verif_resume_count() -> usize {
    unsafe { RESUMES.0 }
}

pub struct Yielder<Input, Yield> {
    slot: Cell<Option<Yield>>,
    marker: PhantomData<fn(Input)>,
}

impl<Input, Yield> Yielder<Input, Yield> {
    /// Records the yielded value. In the real crate this returns only at the next `resume`, with
    /// that resume's argument; in the model it returns immediately with a zeroed `Input`
    /// (the only instantiations exercised use `()` or plain integers).
    pub fn suspend(&self, val: Yield) -> Input {
        assert!(unsafe { !BODY_MODE_ACTIVE.0 }, "corosensei model: suspend inside a body-mode coroutine");
        let prev = self.slot.replace(Some(val));
        assert!(prev.is_none(), "corosensei model: two suspends in one step");
        if core::mem::size_of::<Input>() == 0 {
            // (mem::zeroed::<()>() is a zero-length memset at a dangling address, which CBMC's memset check rejects)
            unsafe { core::ptr::read(core::ptr::NonNull::<Input>::dangling().as_ptr()) }
        } else {
            unsafe { core::mem::zeroed() }
        }
    }
    pub fn on_parent_stack<F: FnOnce() -> R, R>(&self, f: F) -> R {
        f()
    }
}
static mut BODY_MODE_ACTIVE: (bool, u32) = (false, 0x5a5a_0007);

pub struct Coroutine<Input, Yield, Return, S: stack::Stack = DefaultStack> {
    stack: S,
    started: bool,
    done: bool,
    body_mode: bool,
    script: usize,
    step: usize,
    yielder: Yielder<Input, Yield>,
    func: Option<Box<dyn FnOnce(&Yielder<Input, Yield>, Input) -> Return>>,
}

impl<Input, Yield, Return, S: stack::Stack> Coroutine<Input, Yield, Return, S> {
    pub fn with_stack<F>(stack: S, func: F) -> Self
    where
        F: FnOnce(&Yielder<Input, Yield>, Input) -> Return,
        F: 'static,
        Input: 'static,
        Yield: 'static,
        Return: 'static,
    {
        let script = unsafe {
            let s = NEXT_SCRIPT.0;
            NEXT_SCRIPT.0 += 1;
            s
        };
        Coroutine {
            stack,
            started: false,
            done: false,
            body_mode: unsafe { BODY_MODE.0 },
            script,
            step: 0,
            yielder: Yielder {
                slot: Cell::new(None),
                marker: PhantomData,
            },
            func: Some(Box::new(func)),
        }
    }

    /// Model-only: the script id of this coroutine.
    pub fn verif_script_id(&self) -> usize {
        self.script
    }

    pub fn resume(&mut self, val: Input) -> CoroutineResult<Yield, Return> {
        assert!(!self.done, "attempt to resume a completed coroutine");
        self.started = true;
        unsafe { RESUMES.0 += 1 };
        if self.body_mode {
            let f = self.func.take().expect("corosensei model: body already consumed");
            unsafe { BODY_MODE_ACTIVE.0 = true };
            let r = f(&self.yielder, val);
            unsafe { BODY_MODE_ACTIVE.0 = false };
            self.done = true;
            return CoroutineResult::Return(r);
        }
        let hook = unsafe { STEP_HOOK.0 }.expect("corosensei model: no step hook installed");
        let mut ctx = StepCtx::<Input, Yield, Return> {
            yielder: &self.yielder,
            input: Some(val),
            ret: None,
        };
        let step = self.step;
        self.step += 1;
        hook(self.script, step, (&mut ctx as *mut StepCtx<Input, Yield, Return>).cast());
        if let Some(r) = ctx.ret.take() {
            self.done = true;
            assert!(self.yielder.slot.take().is_none(), "corosensei model: yield and return in one step");
            return CoroutineResult::Return(r);
        }
        match self.yielder.slot.take() {
            Some(y) => CoroutineResult::Yield(y),
            None => panic!("corosensei model: step neither yielded nor returned"),
        }
    }

    pub fn started(&self) -> bool {
        self.started
    }
    pub fn done(&self) -> bool {
        self.done
    }
    pub unsafe fn force_reset(&mut self) {
        self.started = false;
        self.done = false;
    }
    pub fn trap_handler(&self) -> trap::CoroutineTrapHandler<Return> {
        trap::CoroutineTrapHandler {
            marker: PhantomData,
        }
    }
    pub fn into_stack(self) -> S {
        self.stack
    }
}

static mut ON_STACK_DEPTH: (usize, u64) = (0, 0x5a5a_0008);
static mut ON_STACK_LAST: (usize, usize, u64) = (0, 0, 0x5a5a_0009);

/// Model-only: nesting depth of `on_stack` and the (base, limit) of the innermost segment.
pub fn verif_on_stack() -> (usize, usize, usize) {
    unsafe { (ON_STACK_DEPTH.0, ON_STACK_LAST.0, ON_STACK_LAST.1) }
}

/// Runs `f` "on" `stack`: the model records the segment, moves the modelled stack pointer is the
/// harness's business, and calls `f` directly; `stack` is dropped afterwards like the real crate.
pub fn on_stack<F, R>(stack: impl stack::Stack, f: F) -> R
where
    F: FnOnce() -> R,
{
    let saved = unsafe { (ON_STACK_LAST.0, ON_STACK_LAST.1) };
    unsafe {
        ON_STACK_DEPTH.0 += 1;
        ON_STACK_LAST.0 = stack.base().get();
        ON_STACK_LAST.1 = stack.limit().get();
    }
    let r = f();
    unsafe {
        ON_STACK_DEPTH.0 -= 1;
        ON_STACK_LAST.0 = saved.0;
        ON_STACK_LAST.1 = saved.1;
    }
    drop(stack);
    r
}
