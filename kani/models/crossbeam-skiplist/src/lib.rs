//! Model of `crossbeam_skiplist::SkipMap` (API subset used by open-coroutine): an insert-only
//! ordered map with stable entries, ascending `iter()`, double-ended. At most `CAP` keys.
use core::cell::UnsafeCell;

/// Maximum number of distinct keys (2 with `--cfg ocv_small`).
#[cfg(not(ocv_small))]
pub const CAP: usize = 3;
#[cfg(ocv_small)]
pub const CAP: usize = 2;
/// Scheduling-point site id.
pub const SITE: u32 = 2;

pub struct SkipMap<K, V> {
    // keys and values live in two parallel arrays (not an array of `Option<(K, V)>`): with the tuple layout Kani 0.68 lost
    // writes made through `&V` into interior-mutable values (an `Injector` stored in the map read back empty - reproduced in
    // a 20-line crate), see DESIGN 8.1
    keys: UnsafeCell<[Option<K>; CAP]>,
    vals: UnsafeCell<[Option<V>; CAP]>,
}
unsafe impl<K, V> Sync for SkipMap<K, V> {}
unsafe impl<K, V> Send for SkipMap<K, V> {}

impl<K, V> Default for SkipMap<K, V> {
    fn default() -> Self {
        Self::new()
    }
}
impl<K, V> core::fmt::Debug for SkipMap<K, V> {
    fn fmt(&self, f: &mut core::fmt::Formatter<'_>) -> core::fmt::Result {
        f.write_str("SkipMap")
    }
}

pub mod map {
    pub use crate::{Entry, Iter, SkipMap};
}

pub struct Entry<'a, K, V> {
    k: &'a K,
    v: &'a V,
}
impl<'a, K, V> Entry<'a, K, V> {
    pub fn key(&self) -> &'a K {
        self.k
    }
    pub fn value(&self) -> &'a V {
        self.v
    }
}

impl<K, V> SkipMap<K, V> {
    pub fn new() -> Self {
        SkipMap {
            keys: UnsafeCell::new([const { None }; CAP]),
            vals: UnsafeCell::new([const { None }; CAP]),
        }
    }
    fn keys(&self) -> &[Option<K>; CAP] {
        unsafe { &*self.keys.get() }
    }
    fn vals(&self) -> &[Option<V>; CAP] {
        unsafe { &*self.vals.get() }
    }
    fn entry_at(&self, i: usize) -> Entry<'_, K, V> {
        match (&self.keys()[i], &self.vals()[i]) {
            (Some(k), Some(v)) => Entry { k, v },
            _ => verif_rt::bound_exceeded("skiplist: empty slot"),
        }
    }
    pub fn len(&self) -> usize {
        let mut n = 0;
        let mut i = 0;
        while i < CAP {
            if self.keys()[i].is_some() {
                n += 1;
            }
            i += 1;
        }
        n
    }
    pub fn is_empty(&self) -> bool {
        self.len() == 0
    }
}

impl<K: Ord, V> SkipMap<K, V> {
    pub fn get<'a>(&'a self, key: &K) -> Option<Entry<'a, K, V>> {
        let mut i = 0;
        while i < CAP {
            if let Some(k) = &self.keys()[i] {
                if k == key {
                    return Some(self.entry_at(i));
                }
            }
            i += 1;
        }
        None
    }

    pub fn get_or_insert_with<'a, F: FnOnce() -> V>(&'a self, key: K, f: F) -> Entry<'a, K, V> {
        verif_rt::yield_point(SITE);
        if let Some(e) = self.get(&key) {
            return e;
        }
        let keys = unsafe { &mut *self.keys.get() };
        let vals = unsafe { &mut *self.vals.get() };
        let mut i = 0;
        while i < CAP {
            if keys[i].is_none() {
                keys[i] = Some(key);
                vals[i] = Some(f());
                return self.entry_at(i);
            }
            i += 1;
        }
        verif_rt::bound_exceeded("skiplist CAP")
    }

    pub fn get_or_insert<'a>(&'a self, key: K, value: V) -> Entry<'a, K, V> {
        self.get_or_insert_with(key, || value)
    }

    pub fn iter(&self) -> Iter<'_, K, V> {
        Iter {
            map: self,
            lo: None,
            hi: None,
            done: false,
        }
    }
}

/// Ascending double-ended iterator: `lo`/`hi` are the slots yielded last from the front/back.
pub struct Iter<'a, K, V> {
    map: &'a SkipMap<K, V>,
    lo: Option<usize>,
    hi: Option<usize>,
    done: bool,
}

impl<'a, K: Ord, V> Iter<'a, K, V> {
    fn key(&self, i: usize) -> Option<&'a K> {
        self.map.keys()[i].as_ref()
    }
    fn in_window(&self, k: &K) -> bool {
        if let Some(lo) = self.lo {
            if let Some(lk) = self.key(lo) {
                if k <= lk {
                    return false;
                }
            }
        }
        if let Some(hi) = self.hi {
            if let Some(hk) = self.key(hi) {
                if k >= hk {
                    return false;
                }
            }
        }
        true
    }
    fn entry(&self, i: usize) -> Entry<'a, K, V> {
        self.map.entry_at(i)
    }
}

impl<'a, K: Ord, V> Iterator for Iter<'a, K, V> {
    type Item = Entry<'a, K, V>;
    fn next(&mut self) -> Option<Self::Item> {
        if self.done {
            return None;
        }
        let mut best: Option<usize> = None;
        let mut i = 0;
        while i < CAP {
            if let Some(k) = self.key(i) {
                if self.in_window(k) {
                    let better = match best {
                        None => true,
                        Some(b) => k < self.key(b).unwrap(),
                    };
                    if better {
                        best = Some(i);
                    }
                }
            }
            i += 1;
        }
        match best {
            Some(b) => {
                self.lo = Some(b);
                Some(self.entry(b))
            }
            None => {
                self.done = true;
                None
            }
        }
    }
}

impl<'a, K: Ord, V> DoubleEndedIterator for Iter<'a, K, V> {
    fn next_back(&mut self) -> Option<Self::Item> {
        if self.done {
            return None;
        }
        let mut best: Option<usize> = None;
        let mut i = 0;
        while i < CAP {
            if let Some(k) = self.key(i) {
                if self.in_window(k) {
                    let better = match best {
                        None => true,
                        Some(b) => k > self.key(b).unwrap(),
                    };
                    if better {
                        best = Some(i);
                    }
                }
            }
            i += 1;
        }
        match best {
            Some(b) => {
                self.hi = Some(b);
                Some(self.entry(b))
            }
            None => {
                self.done = true;
                None
            }
        }
    }
}

impl<'a, K: Ord, V> IntoIterator for &'a SkipMap<K, V> {
    type Item = Entry<'a, K, V>;
    type IntoIter = Iter<'a, K, V>;
    fn into_iter(self) -> Self::IntoIter {
        self.iter()
    }
}
