//! Model of `crossbeam_skiplist::SkipMap` (API subset used by open-coroutine): an insert-only
//! ordered map with stable entries, ascending `iter()`, double-ended. At most `CAP` keys.
use core::cell::UnsafeCell;

/// Maximum number of distinct keys.
pub const CAP: usize = 3;
/// Scheduling-point site id.
pub const SITE: u32 = 2;

pub struct SkipMap<K, V> {
    slots: UnsafeCell<[Option<(K, V)>; CAP]>,
}
unsafe impl<K, V> Sync for SkipMap<K, V> {}
unsafe impl<K, V> Send for SkipMap<K, V> {}

impl<K, V> Default for SkipMap<K, V> {
    fn default() -> Self {
        Self::new()
    }
}
impl<K, V> core::fmt::Debug for SkipMap<K, V> {
    fn fmt(&self, f: &mut core::fmt::Formatter<'_>) -> core::fmt::Result {
        f.write_str("SkipMap")
    }
}

pub mod map {
    pub use crate::{Entry, Iter, SkipMap};
}

pub struct Entry<'a, K, V> {
    k: &'a K,
    v: &'a V,
}
impl<'a, K, V> Entry<'a, K, V> {
    pub fn key(&self) -> &'a K {
        self.k
    }
    pub fn value(&self) -> &'a V {
        self.v
    }
}

impl<K, V> SkipMap<K, V> {
    pub fn new() -> Self {
        SkipMap {
            slots: UnsafeCell::new([const { None }; CAP]),
        }
    }
    fn slots(&self) -> &[Option<(K, V)>; CAP] {
        unsafe { &*self.slots.get() }
    }
    pub fn len(&self) -> usize {
        let mut n = 0;
        let mut i = 0;
        while i < CAP {
            if self.slots()[i].is_some() {
                n += 1;
            }
            i += 1;
        }
        n
    }
    pub fn is_empty(&self) -> bool {
        self.len() == 0
    }
}

impl<K: Ord, V> SkipMap<K, V> {
    pub fn get<'a>(&'a self, key: &K) -> Option<Entry<'a, K, V>> {
        let mut i = 0;
        while i < CAP {
            if let Some((k, v)) = &self.slots()[i] {
                if k == key {
                    return Some(Entry { k, v });
                }
            }
            i += 1;
        }
        None
    }

    pub fn get_or_insert_with<'a, F: FnOnce() -> V>(&'a self, key: K, f: F) -> Entry<'a, K, V> {
        verif_rt::yield_point(SITE);
        if let Some(e) = self.get(&key) {
            return e;
        }
        let slots = unsafe { &mut *self.slots.get() };
        let mut i = 0;
        while i < CAP {
            if slots[i].is_none() {
                slots[i] = Some((key, f()));
                let (k, v) = self.slots()[i].as_ref().unwrap();
                return Entry { k, v };
            }
            i += 1;
        }
        verif_rt::bound_exceeded("skiplist CAP")
    }

    pub fn get_or_insert<'a>(&'a self, key: K, value: V) -> Entry<'a, K, V> {
        self.get_or_insert_with(key, || value)
    }

    pub fn iter(&self) -> Iter<'_, K, V> {
        Iter {
            map: self,
            lo: None,
            hi: None,
            done: false,
        }
    }
}

/// Ascending double-ended iterator: `lo`/`hi` are the slots yielded last from the front/back.
pub struct Iter<'a, K, V> {
    map: &'a SkipMap<K, V>,
    lo: Option<usize>,
    hi: Option<usize>,
    done: bool,
}

impl<'a, K: Ord, V> Iter<'a, K, V> {
    fn key(&self, i: usize) -> Option<&'a K> {
        self.map.slots()[i].as_ref().map(|(k, _)| k)
    }
    fn in_window(&self, k: &K) -> bool {
        if let Some(lo) = self.lo {
            if let Some(lk) = self.key(lo) {
                if k <= lk {
                    return false;
                }
            }
        }
        if let Some(hi) = self.hi {
            if let Some(hk) = self.key(hi) {
                if k >= hk {
                    return false;
                }
            }
        }
        true
    }
    fn entry(&self, i: usize) -> Entry<'a, K, V> {
        let (k, v) = self.map.slots()[i].as_ref().unwrap();
        Entry { k, v }
    }
}

impl<'a, K: Ord, V> Iterator for Iter<'a, K, V> {
    type Item = Entry<'a, K, V>;
    fn next(&mut self) -> Option<Self::Item> {
        if self.done {
            return None;
        }
        let mut best: Option<usize> = None;
        let mut i = 0;
        while i < CAP {
            if let Some(k) = self.key(i) {
                if self.in_window(k) {
                    let better = match best {
                        None => true,
                        Some(b) => k < self.key(b).unwrap(),
                    };
                    if better {
                        best = Some(i);
                    }
                }
            }
            i += 1;
        }
        match best {
            Some(b) => {
                self.lo = Some(b);
                Some(self.entry(b))
            }
            None => {
                self.done = true;
                None
            }
        }
    }
}

impl<'a, K: Ord, V> DoubleEndedIterator for Iter<'a, K, V> {
    fn next_back(&mut self) -> Option<Self::Item> {
        if self.done {
            return None;
        }
        let mut best: Option<usize> = None;
        let mut i = 0;
        while i < CAP {
            if let Some(k) = self.key(i) {
                if self.in_window(k) {
                    let better = match best {
                        None => true,
                        Some(b) => k > self.key(b).unwrap(),
                    };
                    if better {
                        best = Some(i);
                    }
                }
            }
            i += 1;
        }
        match best {
            Some(b) => {
                self.hi = Some(b);
                Some(self.entry(b))
            }
            None => {
                self.done = true;
                None
            }
        }
    }
}

impl<'a, K: Ord, V> IntoIterator for &'a SkipMap<K, V> {
    type Item = Entry<'a, K, V>;
    type IntoIter = Iter<'a, K, V>;
    fn into_iter(self) -> Self::IntoIter {
        self.iter()
    }
}
