//! Model of the `mio` API subset used by open-coroutine. Each `Poll` owns a table
//! fd -> (token, interest): that table *is* the modelled OS interest list (epoll contract:
//! `register` of a registered fd fails with EEXIST, `reregister`/`deregister` of an unregistered
//! one with ENOENT). `poll` delivers, for every fd the harness marked ready and whose interest
//! matches, one event carrying the token that was registered.
use std::cell::UnsafeCell;
use std::io;
use std::time::Duration;

/// Maximum number of registered fds per `Poll` (2 with `--cfg ocv_small`).
#[cfg(not(ocv_small))]
pub const CAP: usize = 4;
#[cfg(ocv_small)]
pub const CAP: usize = 2;

#[derive(Debug, Copy, Clone, PartialEq, Eq, PartialOrd, Ord, Hash)]
pub struct Token(pub usize);

#[derive(Debug, Copy, Clone, PartialEq, Eq)]
pub struct Interest(u8);
impl Interest {
    pub const READABLE: Interest = Interest(1);
    pub const WRITABLE: Interest = Interest(2);
    #[allow(clippy::should_implement_trait)]
    pub const fn add(self, other: Interest) -> Interest {
        Interest(self.0 | other.0)
    }
    pub const fn is_readable(self) -> bool {
        self.0 & 1 != 0
    }
    pub const fn is_writable(self) -> bool {
        self.0 & 2 != 0
    }
    /// Model-only: raw bits (1 = read, 2 = write).
    pub const fn verif_bits(self) -> u8 {
        self.0
    }
}
impl core::ops::BitOr for Interest {
    type Output = Interest;
    fn bitor(self, o: Interest) -> Interest {
        self.add(o)
    }
}

pub mod event {
    use super::Token;
    #[derive(Debug, Copy, Clone)]
    pub struct Event {
        pub(crate) token: Token,
        pub(crate) bits: u8,
    }
    impl Event {
        pub fn token(&self) -> Token {
            self.token
        }
        pub fn is_readable(&self) -> bool {
            self.bits & 1 != 0
        }
        pub fn is_writable(&self) -> bool {
            self.bits & 2 != 0
        }
    }
    pub trait Source {
        fn verif_fd(&self) -> i32;
    }
}

pub mod unix {
    pub struct SourceFd<'a>(pub &'a i32);
    impl crate::event::Source for SourceFd<'_> {
        fn verif_fd(&self) -> i32 {
            *self.0
        }
    }
}

#[derive(Debug)]
pub struct Events {
    items: [Option<event::Event>; CAP],
    n: usize,
}
impl Events {
    pub fn with_capacity(_cap: usize) -> Events {
        Events {
            items: [None; CAP],
            n: 0,
        }
    }
    pub fn iter(&self) -> EventsIter<'_> {
        EventsIter { ev: self, i: 0 }
    }
    pub fn is_empty(&self) -> bool {
        self.n == 0
    }
    pub fn clear(&mut self) {
        self.items = [None; CAP];
        self.n = 0;
    }
}
pub struct EventsIter<'a> {
    ev: &'a Events,
    i: usize,
}
impl<'a> Iterator for EventsIter<'a> {
    type Item = &'a event::Event;
    fn next(&mut self) -> Option<Self::Item> {
        if self.i < self.ev.n {
            let r = self.ev.items[self.i].as_ref();
            self.i += 1;
            r
        } else {
            None
        }
    }
}
impl<'a> IntoIterator for &'a Events {
    type Item = &'a event::Event;
    type IntoIter = EventsIter<'a>;
    fn into_iter(self) -> Self::IntoIter {
        self.iter()
    }
}

/// One row of the modelled OS interest list.
#[derive(Debug, Copy, Clone, PartialEq, Eq)]
pub struct Registration {
    pub fd: i32,
    pub token: usize,
    pub bits: u8,
}

#[derive(Debug)]
pub struct Registry {
    table: UnsafeCell<[Option<Registration>; CAP]>,
    ready: UnsafeCell<[Option<(i32, u8)>; CAP]>,
    /// Model-only: make the next registry operation fail with this errno (fault injection).
    fail_next: UnsafeCell<Option<i32>>,
}

impl Registry {
    fn new() -> Registry {
        Registry {
            table: UnsafeCell::new([None; CAP]),
            ready: UnsafeCell::new([None; CAP]),
            fail_next: UnsafeCell::new(None),
        }
    }
    #[allow(clippy::mut_from_ref)]
    fn table(&self) -> &mut [Option<Registration>; CAP] {
        unsafe { &mut *self.table.get() }
    }
    fn find(&self, fd: i32) -> Option<usize> {
        let t = self.table();
        let mut i = 0;
        while i < CAP {
            if let Some(r) = &t[i] {
                if r.fd == fd {
                    return Some(i);
                }
            }
            i += 1;
        }
        None
    }
    fn injected(&self) -> Option<io::Error> {
        unsafe { (*self.fail_next.get()).take().map(io::Error::from_raw_os_error) }
    }
    /// Model-only: overwrite row `i` of the interest list (lets a harness build an arbitrary OS state without branching).
    pub fn verif_set_slot(&self, i: usize, r: Option<Registration>) {
        self.table()[i] = r;
    }
    /// Model-only: the current registration of `fd`.
    pub fn verif_lookup(&self, fd: i32) -> Option<Registration> {
        self.find(fd).and_then(|i| self.table()[i])
    }
    /// Model-only: number of registered fds.
    pub fn verif_count(&self) -> usize {
        let mut n = 0;
        let mut i = 0;
        while i < CAP {
            if self.table()[i].is_some() {
                n += 1;
            }
            i += 1;
        }
        n
    }
    /// Model-only: mark `fd` ready with `bits` (1 = readable, 2 = writable) for the next `poll`.
    pub fn verif_set_ready(&self, fd: i32, bits: u8) {
        let r = unsafe { &mut *self.ready.get() };
        let mut i = 0;
        while i < CAP {
            if r[i].is_none() {
                r[i] = Some((fd, bits));
                return;
            }
            i += 1;
        }
        verif_rt::bound_exceeded("mio ready CAP")
    }
    /// Model-only: inject an errno into the next registry operation.
    pub fn verif_fail_next(&self, errno: i32) {
        unsafe { *self.fail_next.get() = Some(errno) }
    }
    /// Model-only: the kernel drops a closed fd from the interest list by itself.
    pub fn verif_kernel_close(&self, fd: i32) {
        if let Some(i) = self.find(fd) {
            self.table()[i] = None;
        }
    }

    pub fn register<S: event::Source + ?Sized>(
        &self,
        source: &mut S,
        token: Token,
        interests: Interest,
    ) -> io::Result<()> {
        if let Some(e) = self.injected() {
            return Err(e);
        }
        let fd = source.verif_fd();
        if self.find(fd).is_some() {
            return Err(io::Error::from_raw_os_error(libc::EEXIST));
        }
        let t = self.table();
        let mut i = 0;
        while i < CAP {
            if t[i].is_none() {
                t[i] = Some(Registration {
                    fd,
                    token: token.0,
                    bits: interests.0,
                });
                return Ok(());
            }
            i += 1;
        }
        verif_rt::bound_exceeded("mio CAP")
    }

    pub fn reregister<S: event::Source + ?Sized>(
        &self,
        source: &mut S,
        token: Token,
        interests: Interest,
    ) -> io::Result<()> {
        if let Some(e) = self.injected() {
            return Err(e);
        }
        let fd = source.verif_fd();
        match self.find(fd) {
            Some(i) => {
                self.table()[i] = Some(Registration {
                    fd,
                    token: token.0,
                    bits: interests.0,
                });
                Ok(())
            }
            None => Err(io::Error::from_raw_os_error(libc::ENOENT)),
        }
    }

    pub fn deregister<S: event::Source + ?Sized>(&self, source: &mut S) -> io::Result<()> {
        if let Some(e) = self.injected() {
            return Err(e);
        }
        let fd = source.verif_fd();
        match self.find(fd) {
            Some(i) => {
                self.table()[i] = None;
                Ok(())
            }
            None => Err(io::Error::from_raw_os_error(libc::ENOENT)),
        }
    }
}

/// Model-only: hook called at the start of every `Poll::poll` with the timeout it was given. The harness uses it to let
/// (virtual) time pass and to inject a failure: a non-zero return value is the errno `poll` fails with (e.g. EINTR - mio
/// does not retry an interrupted epoll_wait).
pub static mut VERIF_POLL_HOOK: (Option<fn(Option<Duration>) -> i32>, u64) = (None, 0x5a5a_0010); // (tagged: see the note in the corosensei model)

#[derive(Debug)]
pub struct Poll {
    registry: Registry,
}

impl Poll {
    pub fn new() -> io::Result<Poll> {
        Ok(Poll {
            registry: Registry::new(),
        })
    }
    pub fn registry(&self) -> &Registry {
        &self.registry
    }
    /// Delivers one event per ready fd whose registered interest intersects its readiness; the
    /// readiness marks are consumed. Never blocks (time is not modelled here).
    pub fn poll(&mut self, events: &mut Events, timeout: Option<Duration>) -> io::Result<()> {
        events.clear();
        if let Some(h) = unsafe { VERIF_POLL_HOOK.0 } {
            let e = h(timeout);
            if e != 0 {
                return Err(io::Error::from_raw_os_error(e));
            }
        }
        let ready = unsafe { &mut *self.registry.ready.get() };
        let mut i = 0;
        while i < CAP {
            if let Some((fd, bits)) = ready[i].take() {
                if let Some(reg) = self.registry.verif_lookup(fd) {
                    let hit = reg.bits & bits;
                    if hit != 0 {
                        events.items[events.n] = Some(event::Event {
                            token: Token(reg.token),
                            bits: hit,
                        });
                        events.n += 1;
                    }
                }
            }
            i += 1;
        }
        Ok(())
    }
}
