//! Model of `st3::fifo::{Worker, Stealer}` (API subset used by open-coroutine): a bounded FIFO
//! ring whose capacity is `min_capacity.next_power_of_two()`, transcribed from the *sequential*
//! behaviour of st3-0.4.1/src/fifo.rs (`push`, `pop`, `spare_capacity`, `book_items`, `steal`,
//! including stealing into the same queue). `StealError::Busy` is never produced (no concurrent
//! stealer inside a sequentialised operation). Capacity is at most `MAX_CAP`.
#[derive(Debug, Copy, Clone, PartialEq, Eq)]
pub enum StealError {
    Empty,
    Busy,
}
impl core::fmt::Display for StealError {
    fn fmt(&self, f: &mut core::fmt::Formatter<'_>) -> core::fmt::Result {
        f.write_str("steal error")
    }
}

pub mod fifo {
    pub use crate::StealError;
    use core::cell::{Cell, UnsafeCell};

    /// Largest ring the model supports.
    #[cfg(not(ocv_small))]
    pub const MAX_CAP: usize = 4;
    #[cfg(ocv_small)]
    pub const MAX_CAP: usize = 2;
    /// Scheduling-point site id.
    pub const SITE: u32 = 4;

    pub struct Worker<T> {
        buf: UnsafeCell<[Option<T>; MAX_CAP]>,
        head: Cell<u32>,
        tail: Cell<u32>,
        cap: u32,
    }
    unsafe impl<T> Sync for Worker<T> {}
    unsafe impl<T> Send for Worker<T> {}

    impl<T> core::fmt::Debug for Worker<T> {
        fn fmt(&self, f: &mut core::fmt::Formatter<'_>) -> core::fmt::Result {
            f.write_str("Worker")
        }
    }

    impl<T> Worker<T> {
        pub fn new(min_capacity: usize) -> Self {
            let cap = min_capacity.next_power_of_two();
            if cap > MAX_CAP {
                verif_rt::bound_exceeded("st3 MAX_CAP");
            }
            Worker {
                buf: UnsafeCell::new([const { None }; MAX_CAP]),
                head: Cell::new(0),
                tail: Cell::new(0),
                cap: cap as u32,
            }
        }
        #[allow(clippy::mut_from_ref)]
        fn buf(&self) -> &mut [Option<T>; MAX_CAP] {
            unsafe { &mut *self.buf.get() }
        }
        fn idx(&self, pos: u32) -> usize {
            (pos & (self.cap - 1)) as usize
        }
        pub fn stealer(&self) -> Stealer<'_, T> {
            Stealer { queue: self }
        }
        pub fn capacity(&self) -> usize {
            self.cap as usize
        }
        pub fn spare_capacity(&self) -> usize {
            (self.cap - self.tail.get().wrapping_sub(self.head.get())) as usize
        }
        pub fn is_empty(&self) -> bool {
            self.tail.get() == self.head.get()
        }
        pub fn push(&self, item: T) -> Result<(), T> {
            verif_rt::yield_point(SITE);
            let tail = self.tail.get();
            if tail.wrapping_sub(self.head.get()) > self.cap - 1 {
                return Err(item);
            }
            self.buf()[self.idx(tail)] = Some(item);
            self.tail.set(tail.wrapping_add(1));
            Ok(())
        }
        pub fn pop(&self) -> Option<T> {
            verif_rt::yield_point(SITE);
            let head = self.head.get();
            if self.tail.get() == head {
                return None;
            }
            self.head.set(head.wrapping_add(1));
            self.buf()[self.idx(head)].take()
        }
    }

    /// The real `Stealer` owns an `Arc` of the queue; the model borrows it (same observable API
    /// for the uses in open-coroutine, which only call `worker.stealer().steal(..)`).
    pub struct Stealer<'a, T> {
        queue: &'a Worker<T>,
    }

    impl<T> Stealer<'_, T> {
        pub fn steal<C>(&self, dest: &Worker<T>, mut count_fn: C) -> Result<usize, StealError>
        where
            C: FnMut(usize) -> usize,
        {
            verif_rt::yield_point(SITE);
            let src = self.queue;
            let dest_tail = dest.tail.get();
            let dest_free = dest.cap - dest_tail.wrapping_sub(dest.head.get());
            let head = src.head.get();
            let item_count = src.tail.get().wrapping_sub(head);
            if item_count == 0 {
                return Err(StealError::Empty);
            }
            let count = (count_fn(item_count as usize).min(dest_free as usize) as u32).min(item_count);
            if count == 0 {
                return Err(StealError::Empty);
            }
            // book: move the source head
            src.head.set(head.wrapping_add(count));
            let mut off = 0;
            while off < count {
                let item = src.buf()[src.idx(head.wrapping_add(off))].take();
                dest.buf()[dest.idx(dest_tail.wrapping_add(off))] = item;
                off += 1;
            }
            dest.tail.set(dest_tail.wrapping_add(count));
            Ok(count as usize)
        }
    }
}
