//! Model of `crossbeam_deque::Injector` (API subset used by open-coroutine): an unbounded MPMC
//! FIFO, here bounded by `CAP` (exceeding it fails loudly). `Steal::Retry` is never produced
//! (stated assumption: no concurrent stealer inside a sequentialised operation).
use core::cell::{Cell, UnsafeCell};

/// Maximum number of queued items (4 with `--cfg ocv_small`).
#[cfg(not(ocv_small))]
pub const CAP: usize = 8;
#[cfg(ocv_small)]
pub const CAP: usize = 4;
/// Scheduling-point site id.
pub const SITE: u32 = 3;

#[derive(Debug, PartialEq, Eq, Copy, Clone)]
pub enum Steal<T> {
    Empty,
    Success(T),
    Retry,
}
impl<T> Steal<T> {
    pub fn is_empty(&self) -> bool {
        matches!(self, Steal::Empty)
    }
    pub fn is_success(&self) -> bool {
        matches!(self, Steal::Success(_))
    }
    pub fn is_retry(&self) -> bool {
        matches!(self, Steal::Retry)
    }
    pub fn success(self) -> Option<T> {
        match self {
            Steal::Success(v) => Some(v),
            _ => None,
        }
    }
}

pub struct Injector<T> {
    buf: UnsafeCell<[Option<T>; CAP]>,
    head: Cell<usize>,
    len: Cell<usize>,
}
unsafe impl<T> Sync for Injector<T> {}
unsafe impl<T> Send for Injector<T> {}

impl<T> Default for Injector<T> {
    fn default() -> Self {
        Self::new()
    }
}
impl<T> core::fmt::Debug for Injector<T> {
    fn fmt(&self, f: &mut core::fmt::Formatter<'_>) -> core::fmt::Result {
        f.write_str("Injector")
    }
}

impl<T> Injector<T> {
    pub fn new() -> Self {
        Injector {
            buf: UnsafeCell::new([const { None }; CAP]),
            head: Cell::new(0),
            len: Cell::new(0),
        }
    }
    pub fn push(&self, item: T) {
        verif_rt::yield_point(SITE);
        let len = self.len.get();
        if len >= CAP {
            verif_rt::bound_exceeded("injector CAP");
        }
        let idx = (self.head.get() + len) % CAP;
        unsafe { (*self.buf.get())[idx] = Some(item) };
        self.len.set(len + 1);
    }
    pub fn steal(&self) -> Steal<T> {
        verif_rt::yield_point(SITE);
        let len = self.len.get();
        if len == 0 {
            return Steal::Empty;
        }
        let h = self.head.get();
        let item = unsafe { (*self.buf.get())[h].take() };
        self.head.set((h + 1) % CAP);
        self.len.set(len - 1);
        match item {
            Some(v) => Steal::Success(v),
            None => Steal::Empty,
        }
    }
    pub fn is_empty(&self) -> bool {
        self.len.get() == 0
    }
    pub fn len(&self) -> usize {
        self.len.get()
    }
}
