//! Model of `uuid::Uuid::new_v4()` as used for default names: an opaque value whose textual form
//! is a fixed placeholder (names only feed hashing/printing, never a property under check).
#[derive(Debug, Copy, Clone, PartialEq, Eq, Hash)]
pub struct Uuid(u64);

impl Uuid {
    pub fn new_v4() -> Self {
        Uuid(0)
    }
}
impl core::fmt::Display for Uuid {
    fn fmt(&self, f: &mut core::fmt::Formatter<'_>) -> core::fmt::Result {
        f.write_str("00000000-0000-4000-8000-000000000000")
    }
}
