//! Runtime shared by the model crates and the harnesses.
//!
//! * nondeterministic choices: under Kani they are `kani::any()`; in a native build they are read
//!   from a tape (so that a solver assignment can be replayed at model level) and default to 0.
//! * `yield_point(site)`: the scheduling points of the "one pre-emption" encoding (DESIGN §2.7).
#![allow(static_mut_refs)]

#[cfg(not(kani))]
mod tape {
    use std::cell::RefCell;
    use std::collections::VecDeque;
    thread_local! {
        pub static TAPE: RefCell<VecDeque<u64>> = const { RefCell::new(VecDeque::new()) };
    }
}

/// Load the nondeterminism tape used by native model-level replays.
#[cfg(not(kani))]
pub fn set_tape(values: &[u64]) {
    tape::TAPE.with(|t| {
        let mut t = t.borrow_mut();
        t.clear();
        t.extend(values.iter().copied());
    });
}

#[cfg(not(kani))]
fn next() -> u64 {
    tape::TAPE.with(|t| t.borrow_mut().pop_front().unwrap_or(0))
}

/// An arbitrary `usize` strictly below `n` (`n > 0`).
#[inline]
pub fn any_below(n: usize) -> usize {
    #[cfg(kani)]
    {
        let v: usize = kani::any();
        kani::assume(v < n);
        v
    }
    #[cfg(not(kani))]
    {
        (next() as usize) % n
    }
}

/// An arbitrary `u64`.
#[inline]
pub fn any_u64() -> u64 {
    #[cfg(kani)]
    {
        kani::any()
    }
    #[cfg(not(kani))]
    {
        next()
    }
}

/// An arbitrary `bool`.
#[inline]
pub fn any_bool() -> bool {
    #[cfg(kani)]
    {
        kani::any()
    }
    #[cfg(not(kani))]
    {
        next() & 1 == 1
    }
}

/// Hook invoked at every scheduling point; installed by the concurrency harnesses.
pub static mut YIELD_HOOK: (Option<fn(u32)>, u64) = (None, 0x5a5a_0012); // (tagged: see the note in the corosensei model)
static mut IN_HOOK: (bool, u32) = (false, 0x5a5a_0013);

/// A scheduling point. `site` identifies the kind of operation about to happen.
#[inline]
pub fn yield_point(site: u32) {
    unsafe {
        if IN_HOOK.0 {
            return;
        }
        if let Some(h) = YIELD_HOOK.0 {
            IN_HOOK.0 = true;
            h(site);
            IN_HOOK.0 = false;
        }
    }
}

/// Install / remove the scheduling hook.
pub fn set_yield_hook(h: Option<fn(u32)>) {
    unsafe {
        YIELD_HOOK.0 = h;
    }
}

/// Size-bound violation of a model container: fails loudly (never cuts a path silently).
#[cold]
pub fn bound_exceeded(what: &'static str) -> ! {
    panic!("verif model bound exceeded: {}", what)
}
