//! Model of the `rand` API subset used by open-coroutine: `rand::rng().random_range(a..b)` is an
//! arbitrary value of the range (symbolic under Kani).
use core::ops::Range;

pub struct ThreadRng;

pub fn rng() -> ThreadRng {
    ThreadRng
}

pub trait RngExt {
    fn random_range(&mut self, range: Range<usize>) -> usize;
}

impl RngExt for ThreadRng {
    fn random_range(&mut self, range: Range<usize>) -> usize {
        assert!(range.start < range.end, "cannot sample empty range");
        range.start + verif_rt::any_below(range.end - range.start)
    }
}

pub use RngExt as Rng;
