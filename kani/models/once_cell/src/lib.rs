//! Model of the `once_cell` API subset used by open-coroutine: a value initialised exactly once,
//! the same value afterwards. Single thread of control (no parking, no `thread::current()`).
pub mod sync {
    use core::cell::{Cell, UnsafeCell};
    use core::ops::Deref;

    pub struct OnceCell<T> {
        v: UnsafeCell<Option<T>>,
    }
    unsafe impl<T> Sync for OnceCell<T> {}
    unsafe impl<T> Send for OnceCell<T> {}

    impl<T> OnceCell<T> {
        pub const fn new() -> Self {
            OnceCell {
                v: UnsafeCell::new(None),
            }
        }
        pub fn get(&self) -> Option<&T> {
            unsafe { (*self.v.get()).as_ref() }
        }
        pub fn set(&self, value: T) -> Result<(), T> {
            if self.get().is_some() {
                return Err(value);
            }
            unsafe { *self.v.get() = Some(value) };
            Ok(())
        }
        pub fn get_or_init<F: FnOnce() -> T>(&self, f: F) -> &T {
            if self.get().is_none() {
                let val = f();
                // a re-entrant initialisation would have been a deadlock in the real crate
                assert!(self.get().is_none(), "reentrant init");
                unsafe { *self.v.get() = Some(val) };
            }
            self.get().unwrap()
        }
    }
    impl<T> Default for OnceCell<T> {
        fn default() -> Self {
            Self::new()
        }
    }
    impl<T> core::fmt::Debug for OnceCell<T> {
        fn fmt(&self, f: &mut core::fmt::Formatter<'_>) -> core::fmt::Result {
            f.write_str("OnceCell")
        }
    }

    pub struct Lazy<T, F = fn() -> T> {
        cell: OnceCell<T>,
        init: Cell<Option<F>>,
    }
    unsafe impl<T, F> Sync for Lazy<T, F> {}
    unsafe impl<T, F> Send for Lazy<T, F> {}

    impl<T, F> Lazy<T, F> {
        pub const fn new(f: F) -> Self {
            Lazy {
                cell: OnceCell::new(),
                init: Cell::new(Some(f)),
            }
        }
    }
    impl<T, F: FnOnce() -> T> Lazy<T, F> {
        pub fn force(this: &Lazy<T, F>) -> &T {
            this.cell.get_or_init(|| match this.init.take() {
                Some(f) => f(),
                None => panic!("Lazy instance has previously been poisoned"),
            })
        }
    }
    impl<T, F: FnOnce() -> T> Deref for Lazy<T, F> {
        type Target = T;
        fn deref(&self) -> &T {
            Lazy::force(self)
        }
    }
    impl<T, F> core::fmt::Debug for Lazy<T, F> {
        fn fmt(&self, f: &mut core::fmt::Formatter<'_>) -> core::fmt::Result {
            f.write_str("Lazy")
        }
    }
}
